#!/bin/bash
# Offline set-up: puts icontract, deal and mpmath beside the repository's interpreter
# (into the git-ignored /verif/.deps).  Idempotent; every check calls it.
HERE="$(cd "$(dirname "${BASH_SOURCE[0]}")" && pwd)"
if [ ! -d "$HERE/.deps/mpmath" ] || [ ! -d "$HERE/.deps/icontract" ] || [ ! -d "$HERE/.deps/deal" ]; then
  PIP_NO_INDEX=1 /venv/bin/pip install -q --no-index --find-links /opt/veriftools/wheels \
      --target "$HERE/.deps" icontract deal mpmath || exit 1
fi
mkdir -p "$HERE/evidence/replay" "$HERE/evidence/tmp"
exit 0
