#!/usr/bin/env python3
"""Runs the repository's own suite (hooks off) and checks that every test of BASELINE.json's
stable_pass list still passes.  usage: tools/repo_tests.py [repo_dir]"""
import json, subprocess, sys, os, tempfile
import xml.etree.ElementTree as ET
repo = sys.argv[1] if len(sys.argv) > 1 else '/repo'
base = json.load(open('/root/.vp/BASELINE.json'))
want = set(base['stable_pass'])
fd, xml = tempfile.mkstemp(suffix='.xml'); os.close(fd)
env = dict(os.environ); env.pop('COPULAS_VERIF', None)
p = subprocess.run(['/venv/bin/python', '-m', 'pytest', '-q', '-p', 'no:cacheprovider', '--timeout=900',
                    '-n', '16', '--continue-on-collection-errors', '--junitxml=' + xml, 'tests'],
                   cwd=repo, env=env, capture_output=True, text=True)
passed, failed = set(), set()
for tc in ET.parse(xml).getroot().iter('testcase'):
    name = tc.get('classname') + '::' + tc.get('name')
    # classname is dotted module[.Class]; baseline uses module.Class::name or module::name
    bad = any(ch.tag in ('failure', 'error') for ch in tc)
    skipped = any(ch.tag == 'skipped' for ch in tc)
    if bad: failed.add(name)
    elif not skipped: passed.add(name)
os.remove(xml)
def norm(s): return s.replace('/repo/', repo.rstrip('/') + '/')
want_n = {norm(w) for w in want}
missing = sorted(w for w in want_n if w not in passed)
print(p.stdout.strip().splitlines()[-1])
print('baseline stable tests passing: %d/%d; other passing: %d; failing: %d'
      % (len(want_n) - len(missing), len(want_n), len(passed - want_n), len(failed)))
for m in missing[:20]: print('  MISSING', m)
sys.exit(1 if missing else 0)
