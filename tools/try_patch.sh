#!/bin/bash
# usage: tools/try_patch.sh [-R] <patch.diff> <PROP> [<PROP>...]   (quick tier; VERIF_TIER=thorough to deepen)
# Applies a change to /repo's working tree, runs the named checks, and always restores the tree.
REV=""
if [ "$1" = "-R" ]; then REV="-R"; shift; fi
PATCH="$(realpath "$1")"; shift
cd /verif || exit 3
if ! git -C /repo diff --quiet; then echo "refusing: /repo has uncommitted changes"; exit 3; fi
git -C /repo apply $REV "$PATCH" || { echo "patch does not apply"; exit 3; }
trap 'git -C /repo checkout -- . ; git -C /repo clean -fdq copulas' EXIT
for P in "$@"; do
  OUT=$(./check "$P" --tier "${VERIF_TIER:-quick}" 2>&1); RC=$?
  echo "== $P exit=$RC"; echo "$OUT" | grep -E "^VIOLATION|^INCONCLUSIVE|^HELD|^KNOWN" | cut -c1-220
done
