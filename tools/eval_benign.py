#!/usr/bin/env python3
"""Runs the checks against behaviour-preserving changes (refactorings): any VIOLATION here is a false alarm
(or the "refactoring" is not behaviour-preserving after all - read the witness).
usage: eval_benign.py <dir with Cxx/K/patch.diff> [Cxx ...]   (EVAL_REPO scratch worktree, EVAL_VERIF snapshot)"""
import glob, json, os, re, subprocess, sys
root = sys.argv[1]
only = sys.argv[2:]
REPO = os.environ.get('EVAL_REPO', '/tmp/wt_eval')
VERIF = os.environ.get('EVAL_VERIF', '/verif')
ENV = dict(os.environ, VMON_REPO=REPO)
GROUPS = [('copulas/univariate', ['C03', 'C04', 'C05', 'C14', 'C19', 'C01', 'C15', 'C20']),
          ('copulas/bivariate', ['C06', 'C07', 'C08', 'C09', 'C10', 'C11', 'C14', 'C17', 'C15', 'C19', 'C20']),
          ('copulas/multivariate/gaussian', ['C01', 'C02', 'C05', 'C12', 'C13', 'C14', 'C15', 'C19', 'C20']),
          ('copulas/multivariate/base', ['C01', 'C14', 'C16', 'C19']),
          ('copulas/multivariate/tree', ['C16', 'C17', 'C14', 'C15', 'C19', 'C20']),
          ('copulas/multivariate/vine', ['C16', 'C17', 'C14', 'C15', 'C19', 'C20']),
          ('copulas/optimize', ['C18', 'C03', 'C20', 'C01']),
          ('copulas/utils', ['C15', 'C19', 'C05', 'C01', 'C14', 'C09', 'C03']),
          ('copulas/visualization', ['C20']), ('copulas/datasets', ['C15', 'C20'])]
def sh(*a, **k): return subprocess.run(a, capture_output=True, text=True, **k)
for d in sorted(glob.glob(os.path.join(root, 'C*', '[0-9]'))):
    pid, k = d.split('/')[-2], d.split('/')[-1]
    if only and pid not in only: continue
    patch = os.path.join(d, 'patch.diff')
    if not os.path.exists(patch): continue
    files = re.findall(r'^\+\+\+ b/(\S+)', open(patch).read(), re.M)
    props = [pid]
    for prefix, ps in GROUPS:
        if any(f.startswith(prefix) for f in files):
            props += [p for p in ps if p not in props]
    sh('git', '-C', REPO, 'checkout', '--', '.')
    if sh('git', '-C', REPO, 'apply', patch).returncode != 0:
        print(pid, k, 'PATCH DOES NOT APPLY'); continue
    res = {}
    try:
        for p in props:
            r = sh('./check', p, '--tier', 'quick', cwd=VERIF, env=ENV)
            v = [l.split('#')[-1].strip() for l in r.stdout.splitlines() if l.startswith(('VIOLATION', 'INCONCLUSIVE'))]
            res[p] = {'exit': r.returncode, 'lines': v[:4]}
    finally:
        sh('git', '-C', REPO, 'checkout', '--', '.'); sh('git', '-C', REPO, 'clean', '-fdq', 'copulas')
    json.dump(res, open(os.path.join(d, 'eval_benign.json'), 'w'), indent=1)
    bad = {p: v for p, v in res.items() if v['exit'] != 0}
    print(pid, k, 'files=%s' % ','.join(f.split('/')[-1] for f in files), 'checks=%d' % len(props),
          'QUIET' if not bad else 'ALARM ' + '; '.join('%s:%d %s' % (p, v['exit'], ' | '.join(v['lines'][:2])[:160]) for p, v in bad.items()))
