#!/usr/bin/env python3
"""Runs the checks against seeded changes.  usage: eval_seeded.py <dir with Cxx/K/patch.diff> [--all-props] [Cxx/K ...]
For each change: apply to /repo, run its property's quick check (thorough if quick misses), restore /repo.
Prints one line per change and writes <dir>/Cxx/K/eval.json."""
import glob, json, os, subprocess, sys
root = sys.argv[1]
REPO = os.environ.get('EVAL_REPO', '/repo')
VERIF = os.environ.get('EVAL_VERIF', '/verif')
ENV = dict(os.environ)
if REPO != '/repo':
    ENV['VMON_REPO'] = REPO
args = [a for a in sys.argv[2:] if not a.startswith('--')]
allprops = '--all-props' in sys.argv
def sh(*a, **k): return subprocess.run(a, capture_output=True, text=True, **k)
assert sh('git', '-C', REPO, 'diff', '--quiet').returncode == 0, '/repo dirty'
for d in sorted(glob.glob(os.path.join(root, 'C*', '[0-9]*'))):
    pid, k = d.split('/')[-2], d.split('/')[-1]
    if args and '%s/%s' % (pid, k) not in args and pid not in args: continue
    patch = os.path.join(d, 'patch.diff')
    if not os.path.exists(patch): continue
    if sh('git', '-C', REPO, 'apply', patch).returncode != 0:
        print(pid, k, 'PATCH DOES NOT APPLY'); continue
    res = {}
    try:
        props = [pid]
        for p in props:
            for tier in (('quick',) if os.environ.get('EVAL_QUICK_ONLY') else ('quick', 'thorough')):
                r = sh('./check', p, '--tier', tier, cwd=VERIF, env=ENV)
                v = [l.split('#')[-1].strip() for l in r.stdout.splitlines() if l.startswith('VIOLATION')]
                res[p + ':' + tier] = {'exit': r.returncode, 'violations': v[:4]}
                if r.returncode == 1: break
    finally:
        sh('git', '-C', REPO, 'checkout', '--', '.'); sh('git', '-C', REPO, 'clean', '-fdq', 'copulas')
    caught = [k2 for k2, v in res.items() if v['exit'] == 1]
    json.dump(res, open(os.path.join(d, 'eval.json'), 'w'), indent=1)
    print(pid, k, 'CAUGHT ' + caught[0] if caught else 'MISSED', '|', '; '.join(sum((v['violations'][:2] for v in res.values()), []))[:230])
