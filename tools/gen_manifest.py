#!/usr/bin/env python3
"""Regenerates /verif/MANIFEST.json from the table below and from which monitors exist.

A property is claimed iff vmon/monitors/<id>.py exists; otherwise it is listed under
not_applicable with the reason given here (kept current by re-running this script).
"""
import json
import os

HERE = os.path.dirname(os.path.dirname(os.path.abspath(__file__)))

TABLE = {
    'C01': ('runtime monitor: schema/constant-column contracts on GaussianMultivariate.sample, '
            'RNG-interposition reconstruction of every sampled column from the recorded normal '
            'draws, DKW/Hoeffding bands on marginals and Kendall tau',
            'recorded multivariate_normal draws + marginal ppf are trusted to define the sample; '
            'statistical layer has a 1e-9 per-run false-alarm budget', '3/C01'),
    'C02': ('runtime monitor: post-fit contract on GaussianMultivariate.correlation recomputed from '
            'the public marginals by an independent two-pass Pearson formula',
            'numpy linear algebra, scipy.special.ndtri', '3/C02'),
    'C03': ('runtime monitor: distribution-function laws checked on every fitted univariate '
            '(monotone CDF, range, limits, Gauss-Legendre integral identity, Galois inverse, '
            'log-density, point-mass behaviour)',
            'Gauss-Legendre quadrature at two resolutions; TOL_UNIV=1e-6', '3/C03'),
    'C04': ('runtime monitor: generated ground-truth datasets, DKW band on sup|F_fit-F_true| with a '
            'binomial rule for the 80% clause, closed-form exactness, explicit-sum KDE reference',
            'scipy.stats distributions as generators of ground truth; DKW-Massart inequality', '3/C04'),
    'C05': ('runtime monitor: recorder probes on select_univariate/kstest plus independent '
            're-selection; per-column configuration and fallback contracts on GaussianMultivariate.fit',
            'scipy.stats.kstest as the definition of the KS distance', '3/C05'),
    'C06': ('runtime monitor: copula axioms, 2-increasing on grids and random rectangles, mpmath '
            'generator reference, generator identity, theta ordering and batch-vs-singleton '
            'differential on every observed cumulative_distribution call',
            'mpmath 50-digit reference from the generators; EPS32 tolerance', '3/C06'),
    'C07': ('runtime monitor: h-function and density against generator-derivative reference in mpmath, '
            'range/monotonicity/symmetry contracts, Gauss-Legendre integral identities, row independence',
            'mpmath reference; quadrature at two resolutions', '3/C07'),
    'C08': ('runtime monitor: sign-change inverse oracle against the mpmath h-function on every '
            'percent_point call, monotonicity in y, element-wise differential under batch recomposition',
            'mpmath reference h-function; brentq tolerance 4e-12', '3/C08'),
    'C09': ('runtime monitor: RNG interposition (sample is the Rosenblatt transform of the recorded '
            'uniforms), DKW/Hoeffding bands on margins, Kendall tau and joint CDF',
            'recorded np.random.uniform draws; 1e-9 per-run false-alarm budget', '3/C09'),
    'C10': ('runtime monitor: post-fit/on-raise contract on Bivariate.fit against O(n^2) Kendall tau-b '
            'and the mpmath tau(theta) maps; refusal classes must raise ValueError',
            'definition of tau-b; mpmath Debye integral', '3/C10'),
    'C11': ('runtime monitor: contract on select_copula (calibration, determinism, Frank for tau<=0) and '
            'recovery cells judged by an exact binomial test',
            'samples drawn by an independent conditional-inversion sampler in the harness', '3/C11'),
    'C12': ('runtime monitor: recorded (mean, cov) of the conditional draw against an independent Schur '
            'complement, fixed columns, dict/Series equivalence, argument immutability',
            'numpy linear algebra; recorded multivariate_normal call', '3/C12'),
    'C13': ('runtime monitor: density vs independent MVN log-density of monitor-computed normal scores, '
            'representation/permutation/batch differentials, CDF against quadrature / Monte-Carlo reference',
            'scipy.special.ndtri; 5e-4 slack on CDF monotonicity (scipy integrator is randomised)', '3/C13'),
    'C14': ('runtime monitor: behaviour-fingerprint differential across to_dict/from_dict/save/load/JSON '
            'round trips for every model class',
            'fingerprints are finite probe sets; bit-equality is required', '3/C14'),
    'C15': ('runtime monitor: global-RNG snapshot contract on every sample call plus interleaved-history '
            'differential against isolated replays',
            'np.random.get_state() digest identifies the global state', '3/C15'),
    'C16': ('runtime monitor: post-fit structural contract on VineCopula (union-find spanning trees, '
            'proximity, conditioned/conditioning sets, star/path shape, Kruskal weight)',
            'graph reference in vmon/refs/graph.py', '3/C16'),
    'C17': ('runtime monitor: variable-keyed reference recursion for edge inputs, h-functions and '
            'likelihood; select_copula recorder; sampling bands for two-column vines',
            'mpmath/closed-form h reference; reference recursion validated on center vines', '3/C17'),
    'C18': ('runtime monitor: per-lane sign-change root oracle, lane-independence differential, bracket '
            'containment of every evaluation, invalid-bracket rejection on copulas.optimize',
            'workload-owned monotone functions with known sign structure', '3/C18'),
    'C19': ('runtime monitor: refit-history differential, poison interposition on np.empty (MSan analogue), '
            'NotFitted/ValueError contracts, get_instance contract',
            'two sentinel values reveal any data flow from an uninitialised buffer', '3/C19'),
    'C20': ('runtime monitor: deep argument-snapshot contract on every public entry point, reuse '
            'differential, plotly trace multiset oracle',
            'byte-level digests of ndarray/DataFrame/Series/dict/list arguments', '3/C20'),
}

SHORT = {
    'C01': 'RNG-interposition reconstruction of samples (scipy / explicit kernel-sum quantile references) + schema contracts + DKW/Hoeffding bands',
    'C02': 'post-fit contract with independent recomputation of the correlation matrix',
    'C03': 'distribution-function law oracle (monotonicity, quadrature identity, Galois inverse) on every fitted model',
    'C04': 'ground-truth recovery bands with exact binomial rule, closed-form exactness, explicit-sum KDE reference, RNG replay of the KDE resample',
    'C05': 'recorder probes on the selection functions + independent re-selection + configuration contracts',
    'C06': 'copula axioms + mpmath generator reference + batch/instance differentials on observed CDF calls',
    'C07': 'mpmath derivative reference + quadrature identities + batch/instance differentials on h and density',
    'C08': 'sign-change inverse oracle against own and reference h-function + element-wise differentials',
    'C09': 'RNG-interposition Rosenblatt check + DKW/Hoeffding/joint-CDF bands',
    'C10': 'post-fit / on-raise contract against O(n^2) tau-b and reference calibration, with fit histories',
    'C11': 'contract on select_copula (calibration, determinism, sharing, row order) + binomial recovery cells',
    'C12': 'recorded conditional draw vs independent Schur complement + statistical layer',
    'C13': 'density vs independent MVN reference + representation/dtype/batch differentials + CDF references',
    'C14': 'behaviour-fingerprint differential across serialisation round trips',
    'C15': 'icontract global-RNG snapshot contract (also under the repository test suite) + interleaved-history replay differential',
    'C16': 'post-fit structural contract (union-find, proximity, shape, Kruskal weight) on fitted vines',
    'C17': 'variable-keyed reference recursion for edge inputs, h-functions and likelihood + RNG-interposition Rosenblatt check and bands on samples',
    'C18': 'per-lane sign-change oracle + lane-independence differential + bracket contracts',
    'C19': 'refit-history differential + np.empty poison differential + misuse contracts',
    'C20': 'deep argument-snapshot contract on every entry point (also under other monitors\' workloads and the repository test suite) + plot trace oracle',
}

TEXT = ('Exploration by runtime monitoring: the real code in /repo is executed on seeded generated '
        'workloads while oracles observe every call. Held means "no violation on the executions '
        'listed in the evidence file", not a proof. ')


def main():
    checks, na = [], []
    for pid, (tech, note, ref) in TABLE.items():
        if os.path.exists(os.path.join(HERE, 'vmon', 'monitors', pid.lower() + '.py')):
            checks.append({
                'property_id': pid,
                'quick_cmd': './check %s --tier quick' % pid,
                'thorough_cmd': './check %s --tier thorough' % pid,
                'evidence_file': '/verif/evidence/%s.json' % pid,
                'replay_cmd_template': './check %s --replay {path}' % pid,
                'engine': 'vmon',
                'level_claimed': {'category': 'exploration', 'text': TEXT + tech,
                                  'design_ref': 'DESIGN.md section ' + ref},
                'level_note': note,
                'technique': 'runtime monitoring: ' + SHORT[pid],
            })
        else:
            na.append({'property_id': pid,
                       'reason': 'monitor designed (DESIGN.md section %s) but not yet built in this commit; '
                                 'runtime monitoring does apply' % ref})
    hooks_file = os.path.join(HERE, 'hooks.json')
    hooks = {'guard': 'COPULAS_VERIF',
             'enable': 'no source hooks: probes are attached from the harness at import time',
             'baseline_off_cmd': 'cd /repo && /venv/bin/python -m pytest -q -p no:cacheprovider '
                                 '--timeout=900 -n 16 tests',
             'source_commits': [], 'add_only': True}
    if os.path.exists(hooks_file):
        hooks.update(json.load(open(hooks_file)))
    manifest = {
        'version': 1,
        'setup_cmd': './setup.sh',
        'hooks': hooks,
        'engines': [{'name': 'vmon', 'path': 'vmon/', 'serves_properties': [c['property_id'] for c in checks],
                     'kind_free_text': 'runtime monitors (contracts, reference models, RNG and np.empty '
                                       'interposition, statistical bands) driven by seeded workloads'}],
        'checks': checks,
        'notes': 'Known findings: known_findings.json. Design: DESIGN.md.',
        'not_applicable': na,
    }
    with open(os.path.join(HERE, 'MANIFEST.json'), 'w') as f:
        json.dump(manifest, f, indent=1)
    print('claimed:', [c['property_id'] for c in checks])


if __name__ == '__main__':
    main()
