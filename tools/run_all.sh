#!/bin/bash
# usage: tools/run_all.sh [quick|thorough] [PROP...]   runs checks serially on /repo as it is; one line per check
TIER="${1:-quick}"; shift
cd "$(dirname "$(readlink -f "$0")")/.." || exit 3
PROPS="$@"
[ -z "$PROPS" ] && PROPS=$(python3 -c "import json;print(' '.join(c['property_id'] for c in json.load(open('MANIFEST.json'))['checks']))")
for P in $PROPS; do
  S=$(date +%s); OUT=$(./check "$P" --tier "$TIER" 2>&1); RC=$?; E=$(( $(date +%s) - S ))
  echo "$P exit=$RC ${E}s $(echo "$OUT" | grep -cE '^KNOWN-FINDING') known $(echo "$OUT" | grep -E '^VIOLATION|^INCONCLUSIVE' | head -3 | cut -c1-160 | tr '\n' ';')"
done
