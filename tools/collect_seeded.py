#!/usr/bin/env python3
"""Copies confirmed seeded changes from the candidates directory into /verif/seeded/<id>/ and writes the
summary table used in DESIGN.md.  usage: collect_seeded.py <candidates_dir> [--round eval_file_name]"""
import glob, json, os, shutil, sys
cand = sys.argv[1]
prefix = sys.argv[2] if len(sys.argv) > 2 else ''
out = '/verif/seeded'
rows = []
for d in sorted(glob.glob(os.path.join(cand, 'C*', '[0-9]'))):
    pid, k = d.split('/')[-2], d.split('/')[-1]
    vf = os.path.join(d, 'verified.json')
    if not os.path.exists(vf):
        continue
    ver = json.load(open(vf))
    if not ver.get('ok'):
        print('not kept (verification failed):', pid, k, {x: ver.get(x) for x in ('applies', 'demo_unchanged', 'demo_changed', 'baseline_failing')})
        continue
    sid = '%s%s-%s' % (prefix, pid, k)
    dst = os.path.join(out, sid)
    os.makedirs(dst, exist_ok=True)
    shutil.copy(os.path.join(d, 'patch.diff'), dst)
    shutil.copy(os.path.join(d, 'demo.py'), dst)
    agent = json.load(open(os.path.join(d, 'meta.json'))) if os.path.exists(os.path.join(d, 'meta.json')) else {}
    ev = json.load(open(os.path.join(d, 'eval.json'))) if os.path.exists(os.path.join(d, 'eval.json')) else {}
    first = os.path.join(d, 'eval_round1.json')
    caught = [key for key, v in ev.items() if v.get('exit') == 1]
    meta = {
        'id': sid, 'property': pid, 'origin': 'independent sub-agent given only the property text and a scratch worktree',
        'summary': agent.get('summary'), 'needs_to_manifest': agent.get('needs'), 'files': agent.get('files'),
        'confirmed': {
            'how': 'tools/verify_seeded.py in a scratch worktree of /repo HEAD: patch applied with git apply; demo.py run '
                   'without the patch (expected exit 0) and with it (expected exit 1); full repository suite '
                   '(pytest -n 8 tests) run with the patch, failures re-run once and intersected (the suite has flaky tests)',
            'demo_exit_without_patch': ver['demo_unchanged'], 'demo_exit_with_patch': ver['demo_changed'],
            'tests_failing_with_patch': ver.get('failing_tests', []),
            'baseline_tests_failing_with_patch': ver.get('baseline_failing', [])},
        'checks': {'how': 'tools/eval_seeded.py: patch applied to a scratch worktree, ./check %s run (quick, then thorough if quick held)' % pid,
                   'result': ev, 'caught_by': caught[0] if caught else None},
    }
    json.dump(meta, open(os.path.join(dst, 'meta.json'), 'w'), indent=1)
    viol = ''
    for key in caught[:1]:
        viol = '; '.join(v.split('mech=')[-1].split(' ')[0] for v in ev[key]['violations'][:2])
    rows.append((sid, (agent.get('summary') or '')[:110], caught[0].split(':')[1] if caught else 'MISSED', viol))
with open(os.path.join(out, 'SUMMARY%s.md' % ('_' + prefix.strip('-') if prefix else '')), 'w') as f:
    f.write('| seeded change | what it does | caught in tier | by (mechanisms reported) |\n|---|---|---|---|\n')
    for r in rows:
        f.write('| %s | %s | %s | %s |\n' % r)
print(len(rows), 'kept;', sum(1 for r in rows if r[2] != 'MISSED'), 'caught')
