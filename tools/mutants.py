#!/usr/bin/env python3
"""Self-validation: hand-written property-breaking edits (the "Mutants" lists of DESIGN.md section 3).

  tools/mutants.py [--tier quick] [ID-prefix ...]

Each mutant is a textual replacement in one file under /repo/copulas.  It is applied to /repo's
working tree, the check(s) named for it are run, and the tree is restored (git checkout).  A mutant is
"caught" when at least one of its checks exits 1 with a VIOLATION line.  Nothing is ever committed.
"""
import os
import subprocess
import sys

REPO = os.environ.get('MUT_REPO', '/repo')          # a scratch worktree may be used instead of /repo
ENV = dict(os.environ)
if REPO != '/repo':
    ENV['VMON_REPO'] = REPO

M = []


def m(mid, props, path, old, new, count=1):
    M.append((mid, props.split(','), path, old, new, count))


# ---- C01 ------------------------------------------------------------------------------------------------
m('C01a-no-norm-cdf', 'C01', 'multivariate/gaussian.py', "cdf = stats.norm.cdf(samples[column_name])",
  "cdf = np.clip(samples[column_name] / 6 + 0.5, 0, 1)")
m('C01b-identity-cov', 'C01', 'multivariate/gaussian.py', "            covariance = self.correlation\n",
  "            covariance = np.identity(len(self.columns))\n")
m('C01c-rows-minus-one', 'C01', 'multivariate/gaussian.py', "samples = self._get_normal_samples(num_rows, conditions)",
  "samples = self._get_normal_samples(max(num_rows - 1, 1), conditions)")
m('C01d-corr-on-raw', 'C01,C02', 'multivariate/gaussian.py', "        result = self._transform_to_normal(X)\n        correlation = pd.DataFrame(data=result).corr().to_numpy()",
  "        result = self._transform_to_normal(X)\n        correlation = pd.DataFrame(data=np.asarray(X, dtype=float)).corr().to_numpy()")
# ---- C02 ------------------------------------------------------------------------------------------------
m('C02a-no-clip', 'C02,C13', 'multivariate/gaussian.py', "U.append(univariate.cdf(column.to_numpy()).clip(EPSILON, 1 - EPSILON))",
  "U.append(univariate.cdf(column.to_numpy()).clip(1e-3, 1 - 1e-3))")
m('C02b-spearman', 'C02', 'multivariate/gaussian.py', "correlation = pd.DataFrame(data=result).corr().to_numpy()",
  "correlation = pd.DataFrame(data=result).corr(method='spearman').to_numpy()")
m('C02c-big-ridge', 'C02', 'multivariate/gaussian.py', "correlation = correlation + np.identity(correlation.shape[0]) * EPSILON",
  "correlation = correlation + np.identity(correlation.shape[0]) * 1e-3")
m('C02d-sorted-labels', 'C02,C01', 'multivariate/gaussian.py', "return pd.DataFrame(correlation, index=self.columns, columns=self.columns)",
  "return pd.DataFrame(correlation, index=sorted(self.columns, key=str), columns=sorted(self.columns, key=str))")
# ---- C03 ------------------------------------------------------------------------------------------------
m('C03a-kde-missing-sqrt', 'C03', 'univariate/gaussian_kde.py', "stdev = np.sqrt(self._model.covariance[0, 0])",
  "stdev = self._model.covariance[0, 0]")
m('C03b-kde-bracket-1std', 'C03,C18', 'univariate/gaussian_kde.py', "upper = np.max(X) + (5 * np.std(X))", "upper = np.max(X) + (0.2 * np.std(X))")
m('C03c-constant-cdf-le', 'C03', 'univariate/base.py', "result[np.nonzero(X < self._constant_value)] = 0",
  "result[np.nonzero(X <= self._constant_value)] = 0")
m('C03d-ppf-mirrored', 'C03', 'univariate/base.py', "        return self.MODEL_CLASS.ppf(U, **self._params)",
  "        return self.MODEL_CLASS.isf(U, **self._params)")
# ---- C04 ------------------------------------------------------------------------------------------------
m('C04a-var-for-std', 'C04', 'univariate/gaussian.py', "'scale': np.std(X)}", "'scale': np.var(X)}")
m('C04b-uniform-scale-max', 'C04', 'univariate/uniform.py',
  "    def _fit(self, X):\n        self._params = {'loc': np.min(X), 'scale': np.max(X) - np.min(X)}",
  "    def _fit(self, X):\n        self._params = {'loc': np.min(X), 'scale': np.max(X)}")
m('C04c-kde-ignores-bw', 'C04', 'univariate/gaussian_kde.py',
  "        return gaussian_kde(dataset, bw_method=self.bw_method, weights=self.weights)",
  "        return gaussian_kde(dataset, weights=self.weights)")
m('C04d-ddof1', 'C04', 'univariate/gaussian.py', "'scale': np.std(X)}", "'scale': np.std(X, ddof=1)}")
# ---- C05 ------------------------------------------------------------------------------------------------
m('C05a-ks-greater', 'C05', 'univariate/selection.py', "            if ks < best_ks:", "            if ks > best_ks or best_model is None:")
m('C05b-filter-neq', 'C05', 'univariate/base.py', "if bounded is not None and subclass.BOUNDED != bounded:",
  "if bounded is not None and subclass.BOUNDED == bounded:")
m('C05c-dict-no-default', 'C05', 'multivariate/gaussian.py', "return self.distribution.get(column_name, DEFAULT_DISTRIBUTION)",
  "return self.distribution.get(column_name, GaussianUnivariate)")
m('C05d-fallback-reraises', 'C05', 'multivariate/gaussian.py', "        except Exception as error:\n", "        except ValueError as error:\n")
# ---- C06 ------------------------------------------------------------------------------------------------
m('C06a-clayton-any-shortcut', 'C06', 'bivariate/clayton.py', "if (V == 0).all() or (U == 0).all():", "if (V == 0).any() or (U == 0).any():")
m('C06b-frank-den-sign', 'C06', 'bivariate/frank.py', "        den = np.exp(-self.theta) - 1\n", "        den = 1 - np.exp(-self.theta)\n")
m('C06c-gumbel-generator', 'C06', 'bivariate/gumbel.py', "return np.power(-np.log(t), self.theta)", "return np.power(-np.log(t), self.theta - 1)")
# ---- C07 ------------------------------------------------------------------------------------------------
m('C07a-clayton-pdf-factor', 'C07', 'bivariate/clayton.py', "a = (self.theta + 1) * np.power(U * V, -(self.theta + 1))",
  "a = self.theta * np.power(U * V, -(self.theta + 1))")
m('C07b-gumbel-p3', 'C07,C08', 'bivariate/gumbel.py', "p3 = np.power(-np.log(V), self.theta - 1)", "p3 = np.power(-np.log(V), self.theta)")
m('C07c-clayton-h-any-to-all', 'C07', 'bivariate/clayton.py', "        if (A == np.inf).any():", "        if (A > 1e6).any():")
# ---- C08 ------------------------------------------------------------------------------------------------
m('C08a-bracket-half', 'C08,C09', 'bivariate/base.py', "minimum = brentq(f, 0.0, 1.0)", "minimum = brentq(f, 0.0, 1.0, xtol=1e-3)")
m('C08b-zip-reversed', 'C08,C09', 'bivariate/base.py', "for _y, _v in zip(y, V):", "for _y, _v in zip(y, V[::-1]):")
m('C08c-clayton-exponent', 'C08,C09', 'bivariate/clayton.py', "a = np.power(y, self.theta / (-1 - self.theta))", "a = np.power(y, self.theta / (1 + self.theta))")
# ---- C09 ------------------------------------------------------------------------------------------------
m('C09a-swap-c-v', 'C09', 'bivariate/base.py', "u = self.percent_point(c, v)", "u = self.percent_point(v, c)")
m('C09b-sorted-u', 'C09', 'bivariate/base.py', "return np.column_stack((u, v))\n\n    def compute_theta", "return np.column_stack((np.sort(u), v))\n\n    def compute_theta")
# ---- C10 ------------------------------------------------------------------------------------------------
m('C10a-clayton-theta', 'C10,C11', 'bivariate/clayton.py', "return 2 * self.tau / (1 - self.tau)", "return self.tau / (1 - self.tau)")
m('C10b-gumbel-theta', 'C10,C11', 'bivariate/gumbel.py', "return 1 / (1 - self.tau)", "return 1 / (1 - self.tau ** 2)")
m('C10c-spearman', 'C10,C11', 'bivariate/base.py', "self.tau = stats.kendalltau(U, V)[0]", "self.tau = stats.spearmanr(U, V)[0]")
m('C10d-no-check-marginal', 'C10', 'bivariate/base.py', "        self.check_marginal(V)\n", "")
# ---- C11 ------------------------------------------------------------------------------------------------
m('C11a-argmin', 'C11', 'bivariate/__init__.py', "selected_copula = np.argmax(score.to_numpy())", "selected_copula = np.argmin(score.to_numpy())")
m('C11b-nonpositive-clayton', 'C11', 'bivariate/__init__.py', "    if frank.tau <= 0:\n        return frank\n", "    if frank.tau < 0:\n        return frank\n")
# ---- C12 ------------------------------------------------------------------------------------------------
m('C12a-inv-sigma11', 'C12', 'multivariate/gaussian.py', "sigma12sigma22inv = sigma12 @ np.linalg.inv(sigma22)", "sigma12sigma22inv = sigma12 @ np.linalg.pinv(sigma22 @ sigma22)")
m('C12b-drop-mu-bar', 'C12', 'multivariate/gaussian.py', "mu_bar = mu1 + sigma12sigma22inv @ (conditions - mu2)", "mu_bar = mu1 + 0 * (sigma12sigma22inv @ (conditions - mu2))")
m('C12c-sigma-bar', 'C12', 'multivariate/gaussian.py', "sigma_bar = sigma11 - sigma12sigma22inv @ sigma21", "sigma_bar = sigma11")
# ---- C13 ------------------------------------------------------------------------------------------------
m('C13a-positional-alignment', 'C13', 'multivariate/gaussian.py', "                column = X[column_name]\n", "                column = X.iloc[:, len(U)]\n")
m('C13b-cdf-of-raw', 'C13', 'multivariate/gaussian.py', "        return stats.multivariate_normal.cdf(transformed, cov=self.correlation)",
  "        return stats.multivariate_normal.cdf(transformed * 1.05, cov=self.correlation)")
# ---- C14 ------------------------------------------------------------------------------------------------
m('C14a-edge-loses-D', 'C14', 'multivariate/tree.py', "regular_attributes = ['D', 'tau', 'likelihood', 'neighbors']", "regular_attributes = ['tau', 'likelihood', 'neighbors']")
m('C14b-rounded-theta', 'C14', 'bivariate/base.py', "return {'copula_type': self.copula_type.name, 'theta': self.theta, 'tau': self.tau}",
  "return {'copula_type': self.copula_type.name, 'theta': round(self.theta, 10) if self.theta else self.theta, 'tau': self.tau}")
m('C14c-from-dict-unfitted', 'C14', 'univariate/base.py', "        distribution._set_params(params)\n        distribution.fitted = True\n", "        distribution._set_params(params)\n")
# ---- C15 ------------------------------------------------------------------------------------------------
m('C15a-no-restore', 'C15', 'utils.py', "        np.random.set_state(original_state)\n", "        pass\n")
m('C15b-no-writeback', 'C15', 'utils.py', "        set_model_random_state(current_random_state)\n", "")
m('C15c-dataset-seeds-global', 'C15', 'datasets.py', "    with set_random_state(validate_random_state(seed), _dummy_fn):\n        return pd.Series(np.random.exponential",
  "    np.random.seed(seed)\n    if True:\n        return pd.Series(np.random.exponential")
# ---- C16 ------------------------------------------------------------------------------------------------
m('C16a-prim-min', 'C16', 'multivariate/tree.py', "        neg_tau = -1.0 * abs(self.tau_matrix)\n        X = {0}", "        neg_tau = abs(self.tau_matrix)\n        X = {0}")
m('C16b-truncation-off-by-one', 'C16', 'multivariate/vine.py', "for k in range(1, min(self.n_var - 1, self.truncated)):", "for k in range(1, min(self.n_var - 1, self.truncated + 1)):")
m('C16c-no-check-constraint', 'C16', 'multivariate/tree.py', "if k not in visited and k != x and self._check_constraint(edges[x], edges[k]):", "if k not in visited and k != x:")
# ---- C17 ------------------------------------------------------------------------------------------------
m('C17a-swap-h', 'C17', 'multivariate/tree.py', "            edge.U = np.array([left_given_right, right_given_left])", "            edge.U = np.array([right_given_left, left_given_right])")
m('C17b-skip-last-tree', 'C17', 'multivariate/vine.py', "        num_tree = len(self.trees)\n        values = np.empty([1, num_tree])",
  "        num_tree = max(1, len(self.trees) - 1)\n        values = np.empty([1, num_tree])")
m('C17c-sorted-columns', 'C17', 'multivariate/vine.py', "return pd.DataFrame(sampled_values, columns=self.columns)", "return pd.DataFrame(sampled_values, columns=sorted(self.columns))")
# ---- C18 ------------------------------------------------------------------------------------------------
m('C18a-bisect-min', 'C18', 'optimize/__init__.py', "        if (xmax - xmin).max() < tol:", "        if (xmax - xmin).min() < tol:")
m('C18b-no-clip', 'C18', 'optimize/__init__.py', "xt = np.clip(a + t * (b - a), xmin, xmax)", "xt = a + 1.5 * t * (b - a)")
m('C18c-no-assert', 'C18', 'optimize/__init__.py', "    assert (np.sign(fa) * np.sign(fb) <= 0).all()\n", "")
# ---- C19 ------------------------------------------------------------------------------------------------
m('C19a-fitted-before-validation', 'C19', 'multivariate/gaussian.py', "        LOGGER.info('Fitting %s', self)\n", "        LOGGER.info('Fitting %s', self)\n        self.fitted = True\n")
m('C19b-get-instance-returns-obj', 'C19', 'utils.py', "            args = getattr(obj, '__args__', ())\n            kwargs = getattr(obj, '__kwargs__', {})\n            instance = obj.__class__(*args, **kwargs)",
  "            instance = obj if not getattr(obj, 'fitted', False) else obj.__class__(*getattr(obj, '__args__', ()), **getattr(obj, '__kwargs__', {}))")
m('C19c-empty-again', 'C19,C17', 'multivariate/tree.py', "        tau = np.zeros([num_edges, num_edges])", "        tau = np.empty([num_edges, num_edges])")
# ---- C20 ------------------------------------------------------------------------------------------------
m('C20a-plot-no-copy', 'C20', 'visualization.py', "    data = data.copy()\n    data['Data'] = 'Real'\n\n    if not title:\n        title = 'Data'\n        if columns:\n            title += f\" for columns '{columns[0]}' and '{columns[1]}'\"",
  "    data['Data'] = 'Real'\n\n    if not title:\n        title = 'Data'\n        if columns:\n            title += f\" for columns '{columns[0]}' and '{columns[1]}'\"")
m('C20b-inplace-clip', 'C20', 'bivariate/base.py', "        U, V = split_matrix(X)\n        self.check_marginal(U)", "        U, V = split_matrix(X)\n        np.clip(X, 1e-9, 1 - 1e-9, out=X)\n        self.check_marginal(U)")
m('C20c-sort-in-fit', 'C20', 'univariate/gaussian.py', "    def _fit(self, X):\n", "    def _fit(self, X):\n        if isinstance(X, np.ndarray):\n            X.sort()\n")


def main(argv):
    tier = 'quick'
    sel = []
    it = iter(argv)
    for a in it:
        if a == '--tier':
            tier = next(it)
        else:
            sel.append(a)
    clean = subprocess.run(['git', '-C', REPO, 'diff', '--quiet']).returncode == 0
    if not clean:
        print('refusing: %s has uncommitted changes' % REPO)
        return 3
    caught = missed = broken = 0
    for mid, props, path, old, new, count in M:
        if sel and not any(mid.startswith(s) for s in sel):
            continue
        full = REPO + '/copulas/' + path
        src = open(full).read()
        if src.count(old) != count:
            print('%-28s DOES NOT APPLY (%d occurrences)' % (mid, src.count(old)))
            broken += 1
            continue
        try:
            open(full, 'w').write(src.replace(old, new))
            results = []
            for p in props:
                r = subprocess.run(['./check', p, '--tier', tier], cwd=os.environ.get('MUT_VERIF', '/verif'), capture_output=True, text=True, env=ENV)
                lines = [l for l in r.stdout.splitlines() if l.startswith('VIOLATION')]
                results.append((p, r.returncode, lines[0].split('#')[-1].strip() if lines else ''))
        finally:
            subprocess.run(['git', '-C', REPO, 'checkout', '--', '.'])
        hit = [x for x in results if x[1] == 1]
        print('%-28s %s  %s' % (mid, 'CAUGHT' if hit else 'MISSED', '; '.join('%s:%d %s' % x for x in results)[:200]))
        caught += bool(hit)
        missed += not hit
    print('caught %d, missed %d, not applicable %d' % (caught, missed, broken))
    return 0


if __name__ == '__main__':
    sys.exit(main(sys.argv[1:]))
