#!/bin/bash
# usage: tools/sweep.sh <tier> <seed>...   runs every check for each seed on /repo as it is; prints only non-zero exits
TIER="$1"; shift
cd "$(dirname "$(readlink -f "$0")")/.."
PROPS=$(python3 -c "import json;print(' '.join(c['property_id'] for c in json.load(open('MANIFEST.json'))['checks']))")
for S in "$@"; do for P in $PROPS; do
  OUT=$(VERIF_SEED=$S ./check $P --tier $TIER 2>&1); RC=$?
  if [ $RC -ne 0 ]; then echo "seed=$S $P exit=$RC $(echo "$OUT" | grep -E '^VIOLATION|^INCONCLUSIVE' | head -3 | cut -c1-200 | tr '\n' ';')"; cp -r evidence/replay/$P /tmp/sweep_replay_${P}_$S 2>/dev/null; fi
done; echo "seed=$S done"; done
