#!/usr/bin/env python3
"""Re-runs the current checks against every kept seeded change (seeded/*/patch.diff) in a scratch worktree.
usage: EVAL_REPO=<scratch worktree of /repo> [EVAL_VERIF=<copy of /verif>] regress_seeded.py [id-prefix ...]
Prints one line per change: CAUGHT <tier> / MISSED / DOES-NOT-APPLY; exit 1 if any applicable change is missed."""
import glob, json, os, subprocess, sys
HERE = os.path.dirname(os.path.dirname(os.path.abspath(__file__)))
REPO = os.environ['EVAL_REPO']
VERIF = os.environ.get('EVAL_VERIF', HERE)
ENV = dict(os.environ, VMON_REPO=REPO)
def sh(*a, **k): return subprocess.run(a, capture_output=True, text=True, **k)
assert REPO != '/repo' and sh('git', '-C', REPO, 'diff', '--quiet').returncode == 0, 'scratch worktree must be clean'
missed = 0
for d in sorted(glob.glob(os.path.join(HERE, 'seeded', '*', 'patch.diff'))):
    sid = d.split('/')[-2]
    if sys.argv[1:] and not any(sid.startswith(p) for p in sys.argv[1:]):
        continue
    pid = json.load(open(os.path.join(os.path.dirname(d), 'meta.json')))['property']
    rebased = os.path.join(os.path.dirname(d), 'patch_rebased.diff')     # same change on top of later fix: commits
    if os.path.exists(rebased):
        d = rebased
    if sh('git', '-C', REPO, 'apply', d).returncode != 0:
        print(sid, 'DOES-NOT-APPLY'); continue
    res = 'MISSED'
    try:
        for tier in ('quick', 'thorough'):
            r = sh('./check', pid, '--tier', tier, cwd=VERIF, env=ENV)
            if r.returncode == 1:
                res = 'CAUGHT ' + tier + ' ' + '; '.join(l.split('mech=')[-1].split(' ')[0] for l in r.stdout.splitlines() if l.startswith('VIOLATION'))[:150]
                break
    finally:
        sh('git', '-C', REPO, 'checkout', '--', '.'); sh('git', '-C', REPO, 'clean', '-fdq', 'copulas')
    missed += res == 'MISSED'
    print(sid, res, flush=True)
sys.exit(1 if missed else 0)
