#!/usr/bin/env python3
"""Confirms candidate seeded changes in a scratch worktree: the patch applies, the demonstration passes
without it and fails with it, and the repository's baseline tests still pass with it.
usage: verify_seeded.py <candidates_dir> <scratch_worktree> [Cxx ...]   -> writes <cand>/<K>/verified.json"""
import json, os, subprocess, sys, glob
import xml.etree.ElementTree as ET
cand, wt = sys.argv[1], sys.argv[2]
only = sys.argv[3:]
base = set(json.load(open('/root/.vp/BASELINE.json'))['stable_pass'])
env = dict(os.environ, PYTHONPATH=wt)
def sh(*a, **k): return subprocess.run(a, capture_output=True, text=True, **k)
def demo(path):
    r = sh('/venv/bin/python', path, env=env, cwd=wt, timeout=900)
    return r.returncode, (r.stdout + r.stderr)[-300:]
def tests():
    xml = os.path.join(wt, '_junit.xml')
    sh('/venv/bin/python', '-m', 'pytest', '-q', '-p', 'no:cacheprovider', '--timeout=900', '-n', '8',
       '--junitxml=' + xml, 'tests', cwd=wt, env=env)
    bad = []
    for tc in ET.parse(xml).getroot().iter('testcase'):
        if any(ch.tag in ('failure', 'error') for ch in tc):
            bad.append((tc.get('classname') + '::' + tc.get('name')).replace(wt, '/repo'))
    os.remove(xml)
    return bad
for d in sorted(glob.glob(os.path.join(cand, 'C*', '[0-9]'))):
    pid = d.split('/')[-2]
    if only and pid not in only: continue
    patch, dm = os.path.join(d, 'patch.diff'), os.path.join(d, 'demo.py')
    res = {'dir': d}
    if not (os.path.exists(patch) and os.path.exists(dm)):
        res['error'] = 'missing files'; print(json.dumps(res)); continue
    sh('git', '-C', wt, 'checkout', '--', '.'); sh('git', '-C', wt, 'clean', '-fdq', 'copulas')
    res['demo_unchanged'] = demo(dm)[0]
    a = sh('git', '-C', wt, 'apply', patch)
    res['applies'] = a.returncode == 0
    if res['applies']:
        rc, out = demo(dm)
        res['demo_changed'] = rc; res['demo_out'] = out[-160:]
        bad = tests()
        if bad:   # flaky tests exist in this suite: re-run once and keep the intersection
            bad2 = tests(); bad = sorted(set(bad) & set(bad2))
        res['failing_tests'] = bad
        res['baseline_failing'] = sorted(t for t in bad if t in base)
    sh('git', '-C', wt, 'checkout', '--', '.'); sh('git', '-C', wt, 'clean', '-fdq', 'copulas')
    res['ok'] = bool(res.get('applies') and res['demo_unchanged'] == 0 and res.get('demo_changed') == 1 and not res.get('baseline_failing'))
    json.dump(res, open(os.path.join(d, 'verified.json'), 'w'), indent=1)
    print(pid, d.split('/')[-1], 'OK' if res['ok'] else 'REJECT', {k: res[k] for k in ('applies','demo_unchanged','demo_changed','failing_tests') if k in res})
