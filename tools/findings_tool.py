#!/usr/bin/env python3
"""Maintains known_findings.json.

  findings_tool.py fixed  <key> <props,comma> <commit> <what failed>
  findings_tool.py open   <key> <prop> <mech,comma> <what fails> [where-json] [witness-json]
  findings_tool.py list
"""
import json
import os
import sys

HERE = os.path.dirname(os.path.dirname(os.path.abspath(__file__)))
PATH = os.path.join(HERE, 'known_findings.json')


def load():
    return json.load(open(PATH))


def save(d):
    with open(PATH, 'w') as f:
        json.dump(d, f, indent=1)
        f.write('\n')


def main(a):
    d = load()
    if a[0] == 'list':
        for e in d['findings']:
            print(e['status'], e['property'], e['key'], '-', e.get('what', e.get('record')))
        return
    if a[0] == 'fixed':
        key, props, commit, what = a[1:5]
        d['findings'] = [e for e in d['findings'] if not (e['key'] == key and e['status'] == 'fixed')]
        for p in props.split(','):
            # an open entry with the same key becomes fixed
            d['findings'] = [e for e in d['findings'] if not (e['key'] == key and e['property'] == p)]
            d['findings'].append({'property': p, 'key': key, 'status': 'fixed', 'commit': commit,
                                  'what': what,
                                  'record': 'fixed: property=%s %s %s' % (p, commit, what)})
    elif a[0] == 'open':
        key, prop, mech, what = a[1:5]
        where = json.loads(a[5]) if len(a) > 5 and a[5] else None
        witness = json.loads(a[6]) if len(a) > 6 and a[6] else None
        d['findings'] = [e for e in d['findings'] if not (e['key'] == key and e['property'] == prop)]
        e = {'property': prop, 'key': key, 'status': 'open', 'mech': mech.split(','), 'what': what}
        if where:
            e['where'] = where
        if witness:
            e['witness'] = witness
        d['findings'].append(e)
    d['findings'].sort(key=lambda e: (e['property'], e['key']))
    save(d)


if __name__ == '__main__':
    main(sys.argv[1:])
