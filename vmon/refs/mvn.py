"""Independent multivariate-normal reference: log-density, bivariate CDF by quadrature,
Monte-Carlo CDF, partitioned-normal conditioning (Schur complement)."""

import numpy as np
from scipy.special import ndtr


def logpdf(Z, S):
    """Zero-mean MVN log-density at the rows of Z (eigen-decomposition, S symmetric PD)."""
    Z = np.atleast_2d(np.asarray(Z, dtype=float))
    S = np.asarray(S, dtype=float)
    w, V = np.linalg.eigh((S + S.T) / 2)
    y = Z @ V
    maha = np.sum(y * y / w[None, :], axis=1)
    return -0.5 * (S.shape[0] * np.log(2 * np.pi) + np.sum(np.log(w)) + maha)


_GL = np.polynomial.legendre.leggauss(96)


def bvn_cdf(a, b, rho):
    """P(X<=a, Y<=b) for a standard bivariate normal: int phi(x) Phi((b - rho x)/sqrt(1-rho^2)) dx."""
    if abs(rho) >= 1 - 1e-12:
        return float(ndtr(min(a, b))) if rho > 0 else float(max(0.0, ndtr(a) + ndtr(b) - 1))
    lo, hi = -9.0, min(a, 9.0)
    if hi <= lo:
        return 0.0
    x, w = _GL
    total = 0.0
    # composite rule on 6 panels for sharp integrands (|rho| near 1)
    edges = np.linspace(lo, hi, 7)
    for l, h in zip(edges[:-1], edges[1:]):
        t = (l + h) / 2 + (h - l) / 2 * x
        f = np.exp(-0.5 * t * t) / np.sqrt(2 * np.pi) * ndtr((b - rho * t) / np.sqrt(1 - rho * rho))
        total += np.sum(w * f) * (h - l) / 2
    return float(total)


def mc_cdf(z, S, n=400_000, rng=None):
    """Monte-Carlo estimate of P(Z <= z) for Z ~ N(0, S) with its own Generator."""
    rng = rng or np.random.default_rng(12345)
    S = np.asarray(S, dtype=float)
    w, V = np.linalg.eigh((S + S.T) / 2)
    A = V * np.sqrt(np.clip(w, 0, None))[None, :]
    X = rng.standard_normal((n, S.shape[0])) @ A.T
    return float(np.mean(np.all(X <= np.asarray(z)[None, :], axis=1)))


def conditional(S, free, given, z_given):
    """Mean and covariance of Z[free] given Z[given] = z_given for Z ~ N(0, S)."""
    S = np.asarray(S, dtype=float)
    S11 = S[np.ix_(free, free)]
    S12 = S[np.ix_(free, given)]
    S22 = S[np.ix_(given, given)]
    K = np.linalg.solve(S22.T, S12.T).T          # S12 S22^-1
    mean = K @ np.asarray(z_given, dtype=float)
    cov = S11 - K @ S12.T
    return mean, cov
