"""Graph reference: union-find spanning-tree test, Kruskal maximum spanning tree."""


class UnionFind:
    def __init__(self, items):
        self.p = {x: x for x in items}

    def find(self, x):
        while self.p[x] != x:
            self.p[x] = self.p[self.p[x]]
            x = self.p[x]
        return x

    def union(self, a, b):
        ra, rb = self.find(a), self.find(b)
        if ra == rb:
            return False
        self.p[ra] = rb
        return True


def is_spanning_tree(nodes, edges):
    """edges: list of (a, b) with a, b in nodes.  True iff acyclic, connected and covering all nodes."""
    nodes = list(nodes)
    if len(edges) != len(nodes) - 1:
        return False
    uf = UnionFind(nodes)
    for a, b in edges:
        if a not in uf.p or b not in uf.p or a == b:
            return False
        if not uf.union(a, b):
            return False
    return len({uf.find(x) for x in nodes}) == 1


def max_spanning_weight(n, weight):
    """Kruskal: total weight of a maximum spanning tree of the complete graph on range(n)."""
    pairs = sorted(((weight(i, j), i, j) for i in range(n) for j in range(i + 1, n)), reverse=True)
    uf = UnionFind(range(n))
    total, used = 0.0, 0
    for w, i, j in pairs:
        if uf.union(i, j):
            total += w
            used += 1
            if used == n - 1:
                break
    return total


def degrees(nodes, edges):
    deg = {x: 0 for x in nodes}
    for a, b in edges:
        deg[a] += 1
        deg[b] += 1
    return deg
