"""Independent reference for the Archimedean pair copulas, from their generators only.

    C(u,v)      = psi_inv(psi(u) + psi(v))
    dC/dv       = psi'(v) / psi'(C)
    d2C/du dv   = -psi''(C) psi'(u) psi'(v) / psi'(C)^3

evaluated with mpmath at 50 digits.  Nothing here is copied from the repository's closed
forms; `selftest()` cross-checks the analytic generator derivatives against mpmath's
numerical differentiation of C itself.
"""

import mpmath as mp
import numpy as np

mp.mp.dps = 50

CLAYTON, FRANK, GUMBEL = 'clayton', 'frank', 'gumbel'
FAMILIES = (CLAYTON, FRANK, GUMBEL)


class Arch:
    def __init__(self, family, theta):
        self.family = family
        self.theta = mp.mpf(theta)

    # generator and derivatives ---------------------------------------------------
    def psi(self, t):
        th = self.theta
        t = mp.mpf(t)
        if self.family == CLAYTON:
            return (t ** (-th) - 1) / th
        if self.family == GUMBEL:
            return (-mp.log(t)) ** th
        return -mp.log(mp.expm1(-th * t) / mp.expm1(-th))

    def psi_inv(self, s):
        th = self.theta
        if self.family == CLAYTON:
            return (1 + th * s) ** (-1 / th)
        if self.family == GUMBEL:
            return mp.exp(-(s ** (1 / th)))
        return -mp.log1p(mp.exp(-s) * mp.expm1(-th)) / th

    def dpsi(self, t):
        th = self.theta
        if self.family == CLAYTON:
            return -(t ** (-th - 1))
        if self.family == GUMBEL:
            return -th * (-mp.log(t)) ** (th - 1) / t
        e = mp.exp(-th * t)
        return th * e / (e - 1)

    def d2psi(self, t):
        th = self.theta
        if self.family == CLAYTON:
            return (th + 1) * t ** (-th - 2)
        if self.family == GUMBEL:
            lt = -mp.log(t)
            return th * lt ** (th - 2) * ((th - 1) + lt) / t ** 2
        e = mp.exp(-th * t)
        return th ** 2 * e / (e - 1) ** 2

    # copula ------------------------------------------------------------------------
    def cdf(self, u, v):
        u, v = mp.mpf(u), mp.mpf(v)
        if u <= 0 or v <= 0:
            return mp.mpf(0)
        if u >= 1:
            return v
        if v >= 1:
            return u
        return self.psi_inv(self.psi(u) + self.psi(v))

    def h(self, u, v):
        """dC/dv (u, v): conditional CDF of U given V = v (interior points)."""
        u, v = mp.mpf(u), mp.mpf(v)
        c = self.cdf(u, v)
        return self.dpsi(v) / self.dpsi(c)

    def pdf(self, u, v):
        u, v = mp.mpf(u), mp.mpf(v)
        c = self.cdf(u, v)
        return -self.d2psi(c) * self.dpsi(u) * self.dpsi(v) / self.dpsi(c) ** 3

    def tau(self):
        th = self.theta
        if self.family == CLAYTON:
            return th / (th + 2)
        if self.family == GUMBEL:
            return 1 - 1 / th
        if th == 0:
            return mp.mpf(0)
        d1 = mp.quad(lambda t: t / mp.expm1(t), [0, th]) / th
        return 1 - 4 / th * (1 - d1)


def cdf_array(family, theta, U, V):
    a = Arch(family, theta)
    return np.array([float(a.cdf(u, v)) for u, v in zip(U, V)])


def h_array(family, theta, U, V):
    a = Arch(family, theta)
    return np.array([float(a.h(u, v)) for u, v in zip(U, V)])


def pdf_array(family, theta, U, V):
    a = Arch(family, theta)
    return np.array([float(a.pdf(u, v)) for u, v in zip(U, V)])


def theta_from_tau(family, tau):
    """Calibration tau -> theta from the definitions (Frank by root finding on tau())."""
    tau = mp.mpf(tau)
    if family == CLAYTON:
        return 2 * tau / (1 - tau)
    if family == GUMBEL:
        return 1 / (1 - tau)
    if tau == 0:
        return mp.mpf(0)
    f = lambda th: Arch(FRANK, th).tau() - tau   # noqa: E731
    guess = 9 * tau / (1 - abs(tau)) if abs(tau) < 0.95 else mp.sign(tau) * 40
    return mp.findroot(f, guess)


def selftest():
    """Analytic generator derivatives vs numerical differentiation of C."""
    worst = 0.0
    for fam, th in [(CLAYTON, 0.5), (CLAYTON, 6), (GUMBEL, 1.3), (GUMBEL, 4.5),
                    (FRANK, -12), (FRANK, 3), (FRANK, 18.2)]:
        a = Arch(fam, th)
        for u, v in [(0.2, 0.7), (0.9, 0.95), (0.01, 0.5), (0.5, 0.02)]:
            hn = mp.diff(lambda y: a.cdf(u, y), v)
            cn = mp.diff(lambda x, y: a.cdf(x, y), (u, v), (1, 1))
            worst = max(worst, abs(float((a.h(u, v) - hn) / hn)),
                        abs(float((a.pdf(u, v) - cn) / cn)))
    return worst


if __name__ == '__main__':
    print('worst relative disagreement with mp.diff:', selftest())
    for fam, th in [(CLAYTON, 2), (GUMBEL, 2), (FRANK, 5.736)]:
        print(fam, th, float(Arch(fam, th).tau()))
