"""The (weighted) Gaussian kernel density estimate as an explicit sum, with the bandwidth rules
from their definitions (independent of scipy.stats.gaussian_kde)."""

import numpy as np


def bandwidth_factor(n_eff, rule):
    """Scott: n^(-1/5); Silverman: (3n/4)^(-1/5) (d = 1); scalar: itself."""
    if rule is None or rule == 'scott':
        return n_eff ** (-1.0 / 5.0)
    if rule == 'silverman':
        return (n_eff * 3.0 / 4.0) ** (-1.0 / 5.0)
    return float(rule)


def kde_pdf(x, data, rule=None, weights=None):
    data = np.asarray(data, dtype=float)
    n = len(data)
    w = np.full(n, 1.0 / n) if weights is None else np.asarray(weights, dtype=float) / np.sum(weights)
    n_eff = 1.0 / np.sum(w ** 2)
    mean = np.sum(w * data)
    # weighted, bias-corrected variance: sum w (x-m)^2 / (1 - sum w^2)
    var = np.sum(w * (data - mean) ** 2) / (1.0 - np.sum(w ** 2))
    h = bandwidth_factor(n_eff, rule) * np.sqrt(var)
    x = np.asarray(x, dtype=float)
    z = (x[:, None] - data[None, :]) / h
    return (np.exp(-0.5 * z * z) / (h * np.sqrt(2 * np.pi))) @ w


def kde_cdf(x, data, rule=None, weights=None):
    from scipy.special import ndtr
    data = np.asarray(data, dtype=float)
    n = len(data)
    w = np.full(n, 1.0 / n) if weights is None else np.asarray(weights, dtype=float) / np.sum(weights)
    n_eff = 1.0 / np.sum(w ** 2)
    mean = np.sum(w * data)
    var = np.sum(w * (data - mean) ** 2) / (1.0 - np.sum(w ** 2))
    h = bandwidth_factor(n_eff, rule) * np.sqrt(var)
    x = np.asarray(x, dtype=float)
    return ndtr((x[:, None] - data[None, :]) / h) @ w
