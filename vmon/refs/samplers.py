"""Independent samplers of pair copulas (numpy Generator; never touches the global RNG).

clayton, frank: conditional inversion with the textbook closed forms;
gumbel: Marshall-Olkin frailty construction with a positive stable variate
(Chambers-Mallows-Stuck).  `selftest()` checks them against the mpmath reference CDF.
"""

import numpy as np


def clayton(theta, n, rng):
    v = rng.random(n)
    p = rng.random(n)
    u = (v ** (-theta) * (p ** (-theta / (1 + theta)) - 1) + 1) ** (-1 / theta)
    return np.column_stack([u, v])


def frank(theta, n, rng):
    v = rng.random(n)
    p = rng.random(n)
    # solve dC/dv (u, v) = p for u
    a = np.exp(-theta * v)
    u = -np.log1p(p * np.expm1(-theta) / (a - p * (a - 1))) / theta
    return np.column_stack([u, v])


def gumbel(theta, n, rng):
    if theta == 1:
        return rng.random((n, 2))
    alpha = 1.0 / theta
    t = rng.uniform(-np.pi / 2, np.pi / 2, n)
    w = rng.exponential(size=n)
    # positive stable S(alpha, 1) with Laplace transform exp(-s^alpha)
    s = (np.sin(alpha * (t + np.pi / 2)) / np.cos(t) ** (1 / alpha)
         * (np.cos(t - alpha * (t + np.pi / 2)) / w) ** ((1 - alpha) / alpha))
    e = rng.exponential(size=(n, 2))
    return np.exp(-(e / s[:, None]) ** alpha)


def gaussian(rho, n, rng):
    from scipy.special import ndtr
    z = rng.standard_normal((n, 2))
    z[:, 1] = rho * z[:, 0] + np.sqrt(max(0.0, 1 - rho * rho)) * z[:, 1]
    return ndtr(z)


SAMPLERS = {'clayton': clayton, 'frank': frank, 'gumbel': gumbel}


def selftest():
    from vmon.refs import arch
    rng = np.random.default_rng(5)
    worst = {}
    for fam, th in (('clayton', 2.0), ('frank', 5.7), ('frank', -5.7), ('gumbel', 2.0)):
        X = SAMPLERS[fam](th, 40000, rng)
        g = np.linspace(0.1, 0.9, 5)
        d = 0
        for a in g:
            for b in g:
                emp = np.mean((X[:, 0] <= a) & (X[:, 1] <= b))
                d = max(d, abs(emp - float(arch.Arch(fam, th).cdf(a, b))))
        worst[(fam, th)] = d
    return worst


if __name__ == '__main__':
    print(selftest())
