"""Kendall's tau-b from its definition (O(n^2), vectorised)."""

import numpy as np


def tau_b(x, y):
    x = np.asarray(x, dtype=float)
    y = np.asarray(y, dtype=float)
    n = len(x)
    if n < 2:
        return float('nan')
    conc = disc = tx = ty = 0
    # chunked to bound memory
    step = max(1, 4_000_000 // n)
    for s in range(0, n, step):
        dx = np.sign(x[s:s + step, None] - x[None, :])
        dy = np.sign(y[s:s + step, None] - y[None, :])
        # only pairs i<j
        ii = np.arange(s, min(n, s + step))[:, None]
        mask = ii < np.arange(n)[None, :]
        p = (dx * dy)[mask]
        conc += int((p > 0).sum())
        disc += int((p < 0).sum())
        tx += int(((dx == 0) & (dy != 0))[mask].sum())
        ty += int(((dy == 0) & (dx != 0))[mask].sum())
    den = np.sqrt(float(conc + disc + tx) * float(conc + disc + ty))
    if den == 0:
        return float('nan')
    return (conc - disc) / den
