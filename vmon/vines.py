"""Helpers for the vine monitors (C16, C17, C19): table generation with controlled dependence
patterns, fitting under np.empty poisoning, the structural contract."""

import itertools

import numpy as np

from vmon import interpose
from vmon.core import rng_for
from vmon.refs import graph, rank

PATTERNS = ('gram', 'equi', 'ties', 'negative', 'block', 'monotone', 'near_dup', 'zero_tau', 'huge_range')
SENTINELS = {'pos': 111.0, 'neg': -222.0, 'nan': float('nan'), 'zero': 0.0}


def make_table(spec):
    """DataFrame from {d, n, pattern, perm, seed}."""
    import pandas as pd
    from scipy.special import ndtr
    rng = rng_for(spec['seed'], 'vine-table')
    d, n, pat = spec['d'], spec['n'], spec['pattern']
    if pat == 'equi':
        r = float(rng.uniform(0.3, 0.8))
        S = np.full((d, d), r) + (1 - r) * np.eye(d)
    elif pat == 'block':
        S = np.eye(d)
        k = max(2, d // 2)
        r = float(rng.uniform(0.4, 0.9))
        S[:k, :k] = np.full((k, k), r) + (1 - r) * np.eye(k)
    else:
        A = rng.normal(size=(d, d + 2))
        S = A @ A.T
        s = np.sqrt(np.diag(S))
        S = S / s[:, None] / s[None, :]
    w, V = np.linalg.eigh(S)
    Z = rng.standard_normal((n, d)) @ (V * np.sqrt(np.clip(w, 0, None))[None, :]).T
    X = Z.copy()
    if pat == 'ties':
        # exact ties of pairwise |tau|: columns share rank patterns (monotone images of each other's ranks
        # on disjoint halves), plus heavy rounding
        X = np.round(Z, 1)
        X[:, -1] = np.round(Z[:, 0] + 0.0 * Z[:, -1], 1) * 1.0 + rng.permutation(n) * 1e-9
    elif pat == 'negative':
        X[:, int(rng.integers(d))] *= -1
    elif pat == 'monotone':
        for j in range(d):
            X[:, j] = [np.exp(Z[:, j]), Z[:, j] ** 3, ndtr(Z[:, j]), Z[:, j]][int(rng.integers(4))]
    elif pat == 'near_dup' and d >= 3:
        X[:, -1] = X[:, 0] + 1e-3 * rng.standard_normal(n)
    elif pat == 'near_monotone':
        # two almost perfectly monotone columns (tau about 0.97-0.99): h-functions reach 0 and 1 in floating point
        X[:, -1] = X[:, 0] + float(rng.uniform(0.01, 0.04)) * rng.standard_normal(n)
    elif pat == 'zero_tau':
        # an even function of a symmetric grid: Kendall tau with that column is exactly 0
        g = np.linspace(-1, 1, n) if n % 2 == 0 else np.linspace(-1, 1, n + 1)[:n]
        g = np.concatenate([-np.abs(g[: n // 2]), np.abs(g[: n // 2])[::-1], np.zeros(n - 2 * (n // 2))])[:n]
        X[:, 0] = g + 0.0
        j = 1 + int(rng.integers(max(1, d - 1))) if d > 1 else 0
        X[:, j] = g ** 2 + (0 if rng.random() < 0.5 else 0) 
    elif pat == 'huge_range':
        # columns spanning some 25 decades (log-normal, sigma 8): ranks are what they are, but anything computed from
        # smoothed or rescaled values (kernel CDFs, float32 copies) loses the order of the small values
        for j in range(d):
            X[:, j] = np.exp(8.0 * Z[:, j])
    elif pat == 'near_monotone_exp':
        X[:, -1] = np.exp(X[:, 0]) + 0.02 * rng.standard_normal(n)
    perm = spec.get('perm') or list(range(d))
    X = X[:, perm]
    return pd.DataFrame(X, columns=['x%d' % i for i in range(d)])


def permutations(d, rng, cap=24):
    if d <= 4:
        return [list(p) for p in itertools.permutations(range(d))]
    return [list(rng.permutation(d)) for _ in range(cap)]


def fit(ctx, vine_type, df, truncated, sentinel='pos', random_state=None, past=None):
    """Fit a VineCopula with np.empty (as seen by tree.py / vine.py) returning sentinel-filled buffers.
    Returns (model, poison_counter) or (exception, None)."""
    import copulas.multivariate.tree as tree_mod
    import copulas.multivariate.vine as vine_mod
    from copulas.multivariate import VineCopula
    kw = {} if random_state is None else {'random_state': random_state}
    model = VineCopula(vine_type, **kw)
    with interpose.poison_empty(SENTINELS[sentinel], tree_mod, vine_mod) as p:
        if past is not None:
            # the instance has a past: fitted on another table (same columns) and used
            try:
                model.fit(past.copy(), truncated=truncated)
                model.sample(1)
                model.get_likelihood(np.full((1, past.shape[1]), 0.4))
                model.to_dict()
            except Exception:  # noqa: BLE001 - a refused earlier fit is part of the history
                pass
        # the truncation level is given by keyword or by position (fit(X, truncated=3) is the signature), or left
        # to its default when it equals the default
        how = (int(df.shape[0]) + int(df.shape[1]) + int(truncated)) % 3
        if how == 0:
            ok, exc = ctx.call(model.fit, df.copy(), truncated=truncated)
        elif how == 1 or truncated != 3:
            ok, exc = ctx.call(model.fit, df.copy(), truncated)
        else:
            ok, exc = ctx.call(model.fit, df.copy())
    if not ok:
        return exc, None
    return model, p


def is_refusal(exc):
    """A vine fit may refuse a table with ValueError when a pair copula cannot be calibrated (constant or
    out-of-range pseudo-observations from near-duplicate columns, inadmissible theta): such a ValueError is
    raised inside the bivariate package.  A ValueError raised while assembling the trees (multivariate
    package) is not a refusal."""
    from vmon.core import exc_origin
    origin = exc_origin(exc)
    return isinstance(exc, ValueError) and origin is not None and origin.startswith('bivariate/')


def edge_vars(e):
    return frozenset([int(e.L), int(e.R)]) | frozenset(int(x) for x in e.D)


def check_structure(ctx, model, df, vine_type, truncated, where, prop='C16'):
    """The regular-vine contract on a fitted VineCopula.  Returns the number of edges judged."""
    from copulas.bivariate.base import CopulaTypes
    d = df.shape[1]
    want_trees = max(1, min(d - 1, truncated))
    trees = model.trees
    if not ctx.check(len(trees) == want_trees, 'vine.depth', prop + ':wrong-number-of-trees',
                     lambda: dict(where, trees=len(trees), want=want_trees)):
        return 0
    seen_pairs = set()
    judged = 0
    prev_edges = None
    for k, tree in enumerate(trees, start=1):
        edges = list(tree.edges)
        w = dict(where, tree=k)
        if not ctx.check(len(edges) == d - k, 'vine.edge-count', prop + ':wrong-number-of-edges',
                         lambda: dict(w, edges=len(edges), want=d - k)):
            return judged
        if k == 1:
            nodes = list(range(d))
            pairs = [(int(e.L), int(e.R)) for e in edges]
            ok_nodes = all(0 <= a < d and 0 <= b < d for a, b in pairs)
        else:
            nodes = list(range(len(prev_edges)))
            pairs = []
            ok_nodes = True
            for e in edges:
                par = e.parents
                if not par or len(par) != 2:
                    ok_nodes = False
                    break
                idx = []
                for p in par:
                    hit = [i for i, q in enumerate(prev_edges) if q is p]
                    if len(hit) != 1:
                        ok_nodes = False
                        break
                    idx.append(hit[0])
                if not ok_nodes:
                    break
                pairs.append(tuple(idx))
        if not ctx.check(ok_nodes, 'vine.parents-are-previous-edges', prop + ':parents-not-edges-of-previous-tree', w):
            return judged
        ctx.check(graph.is_spanning_tree(nodes, pairs), 'vine.spanning-tree', prop + ':tree-not-a-spanning-tree',
                  lambda: dict(w, pairs=pairs, nodes=len(nodes)))
        deg = graph.degrees(nodes, pairs)
        if vine_type == 'center':
            ctx.check(max(deg.values()) == len(nodes) - 1, 'vine.shape', prop + ':center-tree-not-a-star',
                      lambda: dict(w, degrees=sorted(deg.values())))
        elif vine_type == 'direct':
            ctx.check(max(deg.values()) <= 2, 'vine.shape', prop + ':direct-tree-not-a-path',
                      lambda: dict(w, degrees=sorted(deg.values())))
        for e, pr in zip(edges, pairs):
            L, R, D = int(e.L), int(e.R), set(int(x) for x in e.D)
            we = dict(w, edge=[L, R, sorted(D)])
            ok_e = L != R and len(D) == k - 1 and L not in D and R not in D and 0 <= L < d and 0 <= R < d
            if k >= 2:
                A, B = edge_vars(prev_edges[pr[0]]), edge_vars(prev_edges[pr[1]])
                ok_e = ok_e and len(A & B) == k - 1 and {L, R} == set(A ^ B) and D == set(A & B)
                # proximity: the parents share a node of tree k-1
                pa, pb = prev_edges[pr[0]], prev_edges[pr[1]]
                if k == 2:
                    share = bool({int(pa.L), int(pa.R)} & {int(pb.L), int(pb.R)})
                else:
                    share = any(x is y for x in pa.parents for y in pb.parents)
                ok_e = ok_e and share
            ctx.check(ok_e, 'vine.edge-sets', prop + ':edge-conditioned-or-conditioning-set-wrong', we)
            pair = frozenset([L, R])
            ctx.check(pair not in seen_pairs, 'vine.pair-once', prop + ':pair-conditioned-twice', we)
            seen_pairs.add(pair)
            # copula family and parameter
            name = e.name
            fam_ok = name in (CopulaTypes.CLAYTON, CopulaTypes.FRANK, CopulaTypes.GUMBEL)
            th = e.theta
            if fam_ok and th is not None and not np.isnan(th):
                adm = {CopulaTypes.CLAYTON: th > 0, CopulaTypes.GUMBEL: th >= 1, CopulaTypes.FRANK: th != 0}[name]
            else:
                adm = False
            ctx.check(fam_ok and adm, 'vine.edge-copula', prop + ':edge-copula-inadmissible',
                      lambda: dict(we, name=repr(name), theta=th))
            judged += 1
        prev_edges = edges
    if vine_type == 'regular':
        X = df.to_numpy()
        T = np.zeros((d, d))
        for i in range(d):
            for j in range(i + 1, d):
                T[i, j] = T[j, i] = abs(rank.tau_b(X[:, i], X[:, j]))
        # the structure is chosen from the Kendall tau of the TABLE's columns (ranks are invariant under the marginal
        # transforms, so a tau matrix computed anywhere else must still be this one)
        tm = getattr(model, 'tau_mat', None)
        if tm is not None and np.shape(tm) == (d, d):
            off = ~np.eye(d, dtype=bool)
            worst = float(np.max(np.abs(np.abs(np.asarray(tm, dtype=float))[off] - T[off]))) if d > 1 else 0.0
            ctx.check(worst <= 1e-12, 'vine.tau-matrix-is-table-tau', prop + ':tau-matrix-not-kendall-tau-of-the-table',
                      lambda: dict(where, worst=worst))
        got = sum(T[int(e.L), int(e.R)] for e in trees[0].edges)
        best = graph.max_spanning_weight(d, lambda i, j: T[i, j])
        ctx.check(abs(got - best) <= 1e-12 * max(1, best) + 1e-12, 'vine.first-tree-maximal', prop + ':first-tree-not-maximum-spanning-tree',
                  lambda: dict(where, weight=got, maximum=best))
    return judged


def check_to_dict(ctx, model, where, prop='C16'):
    ok, dd = ctx.call(model.to_dict)
    if not ok:
        from vmon.core import exc_detail, exc_mech
        ctx.violation('vine.to_dict', prop + ':to_dict-' + exc_mech(dd), dict(exc_detail(dd), **where))
        return
    good = len(dd.get('trees', [])) == len(model.trees)
    if good:
        for td, tree in zip(dd['trees'], model.trees):
            if len(td['edges']) != len(tree.edges):
                good = False
                break
            for ed, e in zip(td['edges'], tree.edges):
                if not (ed['L'] == e.L and ed['R'] == e.R and set(ed['D']) == set(e.D) and ed['name'] == e.name
                        and (ed['theta'] == e.theta or (ed['theta'] != ed['theta'] and e.theta != e.theta))):
                    good = False
    ctx.check(good, 'vine.to_dict', prop + ':to_dict-disagrees-with-model', where)


def past_table(df, rng):
    """Another table with the same columns: rows of each column shuffled independently, rescaled."""
    import pandas as pd
    return pd.DataFrame({c: rng.permutation(df[c].to_numpy()) * 3.0 + 1.0 for c in df.columns}, columns=df.columns)
