"""One shard of a check: runs its share of the cases in a fresh interpreter.

usage: python -m vmon.worker <PROP> <tier> <seed> <shard> <nshards> <outfile>
"""

import importlib
import json
import os
import sys
import time
import warnings

import numpy as np


def load_monitor(prop):
    return importlib.import_module('vmon.monitors.' + prop.lower())


def run_cases(mod, specs, ctx, indices=None, budget_s=None):
    from vmon.core import exc_detail, exc_site
    t0 = time.time()
    done = 0
    for i, spec in enumerate(specs):
        idx = indices[i] if indices is not None else i
        if budget_s is not None and time.time() - t0 > budget_s:
            ctx.note('cases_skipped_budget', len(specs) - i)
            break
        ctx.spec = spec
        ctx.case_index = idx
        try:
            mod.run_case(spec, ctx)
        except Exception as exc:  # noqa: BLE001
            site = exc_site(exc)
            if site is not None:
                # an exception escaping from the code under observation that no oracle expected
                ctx.violation('uncaught', 'uncaught:%s@%s' % (type(exc).__name__, site),
                              exc_detail(exc))
            else:
                ctx.violation('uncaught', 'harness-exception:%s' % type(exc).__name__,
                              exc_detail(exc))
        done += 1
    ctx.spec = None
    ctx.case_index = None
    return done


def main(argv):
    prop, tier, seed, shard, nshards, outfile = argv[:6]
    seed, shard, nshards = int(seed), int(shard), int(nshards)
    warnings.simplefilter('ignore')
    np.seterr(all='ignore')
    from vmon.core import Ctx, all_cases, assert_repo
    path = assert_repo()
    mod = load_monitor(prop)
    ctx = Ctx(prop, tier, seed)
    specs = all_cases(mod, seed, tier)
    mine = [(i, s) for i, s in enumerate(specs) if i % nshards == shard]
    t0 = time.time()
    if hasattr(mod, 'setup_worker'):
        mod.setup_worker(ctx)
    done = run_cases(mod, [s for _, s in mine], ctx, [i for i, _ in mine])
    if hasattr(mod, 'teardown_worker'):
        mod.teardown_worker(ctx)
    out = ctx.dump()
    out.update({'cases_total': len(specs), 'cases_run': done, 'shard': shard,
                'wall_s': time.time() - t0, 'copulas_path': path})
    tmp = outfile + '.tmp'
    with open(tmp, 'w') as f:
        json.dump(out, f)
    os.replace(tmp, outfile)


if __name__ == '__main__':
    main(sys.argv[1:])
