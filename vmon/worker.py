"""One shard of a check: runs its share of the cases in a fresh interpreter.

usage: python -m vmon.worker <PROP> <tier> <seed> <shard> <nshards> <outfile>
"""

import importlib
import json
import os
import sys
import time
import warnings

import numpy as np


def load_monitor(prop):
    return importlib.import_module('vmon.monitors.' + prop.lower())


def run_cases(mod, specs, ctx, indices=None, budget_s=None):
    from vmon.core import exc_detail, exc_site
    t0 = time.time()
    done = 0
    for i, spec in enumerate(specs):
        idx = indices[i] if indices is not None else i
        if budget_s is not None and time.time() - t0 > budget_s:
            ctx.note('cases_skipped_budget', len(specs) - i)
            break
        ctx.spec = spec
        ctx.case_index = idx
        try:
            mod.run_case(spec, ctx)
        except Exception as exc:  # noqa: BLE001
            site = exc_site(exc)
            if site is not None:
                # an exception escaping from the code under observation that no oracle expected
                ctx.violation('uncaught', 'uncaught:%s@%s' % (type(exc).__name__, site),
                              exc_detail(exc))
            else:
                ctx.violation('uncaught', 'harness-exception:%s' % type(exc).__name__,
                              exc_detail(exc))
        done += 1
    ctx.spec = None
    ctx.case_index = None
    return done


class LineCoverage:
    """Which statement-start lines of the repository package executed while the monitors were watching
    (sys.monitoring LINE events, each location disabled after its first hit: negligible overhead)."""

    TOOL = 3

    def __init__(self, root):
        self.root = root
        self.hit = set()
        self.on = False

    def start(self):
        mon = getattr(sys, 'monitoring', None)
        if mon is None:
            return
        try:
            mon.use_tool_id(self.TOOL, 'vmon-lines')
        except ValueError:
            return
        root, hit = self.root, self.hit

        def on_line(code, line):
            fn = code.co_filename
            if fn.startswith(root):
                hit.add((fn[len(root):], line))
            return mon.DISABLE
        mon.register_callback(self.TOOL, mon.events.LINE, on_line)
        mon.set_events(self.TOOL, mon.events.LINE)
        self.on = True

    def stop(self):
        if self.on:
            sys.monitoring.set_events(self.TOOL, 0)
            sys.monitoring.free_tool_id(self.TOOL)
        out = {}
        for fn, line in self.hit:
            out.setdefault(fn, []).append(line)
        return {k: sorted(v) for k, v in out.items()}


def main(argv):
    prop, tier, seed, shard, nshards, outfile = argv[:6]
    seed, shard, nshards = int(seed), int(shard), int(nshards)
    warnings.simplefilter('ignore')
    np.seterr(all='ignore')
    from vmon.core import Ctx, all_cases, assert_repo
    path = assert_repo()
    mod = load_monitor(prop)
    ctx = Ctx(prop, tier, seed)
    specs = all_cases(mod, seed, tier)
    mine = [(i, s) for i, s in enumerate(specs) if i % nshards == shard]
    t0 = time.time()
    cov = LineCoverage(os.path.dirname(path) + os.sep)
    if os.environ.get('VMON_LINES', '1') != '0':
        cov.start()
    if hasattr(mod, 'setup_worker'):
        mod.setup_worker(ctx)
    done = run_cases(mod, [s for _, s in mine], ctx, [i for i, _ in mine])
    if hasattr(mod, 'teardown_worker'):
        mod.teardown_worker(ctx)
    out = ctx.dump()
    out['lines'] = cov.stop()
    out.update({'cases_total': len(specs), 'cases_run': done, 'shard': shard,
                'wall_s': time.time() - t0, 'copulas_path': path})
    tmp = outfile + '.tmp'
    with open(tmp, 'w') as f:
        json.dump(out, f)
    os.replace(tmp, outfile)


if __name__ == '__main__':
    main(sys.argv[1:])
