"""Finite-sample, distribution-free bands and the per-run false-alarm budget.

Every statistical comparison is made at DELTA_CMP = 1e-14; a run may contain at most
MAX_COMPARISONS = 100_000 of them, so the probability that a run on correct code reports a
statistical violation is below DELTA_RUN = 1e-9 (union bound).  Monitors count their
comparisons with `spend()`; exceeding the cap is reported as inconclusive, never ignored.
"""

import math

import numpy as np
from scipy import stats as _st

DELTA_RUN = 1e-9
MAX_COMPARISONS = 100_000
DELTA_CMP = DELTA_RUN / MAX_COMPARISONS


def dkw_eps(n, delta=DELTA_CMP):
    """Dvoretzky-Kiefer-Wolfowitz-Massart: P(sup|F_n - F| > eps) <= 2 exp(-2 n eps^2)."""
    return math.sqrt(math.log(2.0 / delta) / (2.0 * n))


def tau_eps(n, delta=DELTA_CMP):
    """Hoeffding for U-statistics of order 2 with kernel in [-1, 1]."""
    return math.sqrt(2.0 * math.log(2.0 / delta) / (n // 2))


def grid_eps(n, points, delta=DELTA_CMP):
    """Hoeffding per grid point with a union bound over `points` points."""
    return math.sqrt(math.log(2.0 * points / delta) / (2.0 * n))


def mean_eps(n, width, delta=DELTA_CMP):
    """Hoeffding for the mean of n variables with range `width`."""
    return width * math.sqrt(math.log(2.0 / delta) / (2.0 * n))


def ks_distance(sample, cdf):
    """sup |F_n - F| of a sample against a CDF callable (exact, both sides of each jump)."""
    x = np.sort(np.asarray(sample, dtype=float))
    n = len(x)
    F = np.asarray(cdf(x), dtype=float)
    hi = np.arange(1, n + 1) / n - F
    lo = F - np.arange(0, n) / n
    return float(max(hi.max(), lo.max()))


def ks_distance_fp(sample, cdf, magnitude=0.0, ulps=8):
    """KS distance at floating-point resolution: the fitted CDF may be evaluated a few ulps to the
    right (for the upper comparison) or left (for the lower one) of each sample point.  A law that is
    a step within a few ulps (scipy MLE diverging to scale 1e-29) is then judged like the point mass
    it is, and nothing else changes (the shift is 8 ulps of max(|x|, magnitude))."""
    x = np.sort(np.asarray(sample, dtype=float))
    n = len(x)
    step = ulps * np.spacing(np.maximum(np.abs(x), magnitude)) + 1e-300
    vals, first = np.unique(x, return_index=True)
    counts = np.diff(np.append(first, n))
    Fn_right = (first + counts) / n
    Fn_left = first / n
    st = step[first]
    F_hi = np.asarray(cdf(vals + st), dtype=float)
    F_lo = np.asarray(cdf(vals - st), dtype=float)
    up = Fn_right - F_hi          # empirical above the (right-shifted) model CDF
    down = F_lo - Fn_left         # (left-shifted) model CDF above the empirical
    return float(max(up.max(), down.max(), 0.0))


def ks_distance_ties(sample, cdf):
    """KS distance that is valid when the sample has ties / the CDF has jumps: compares the
    empirical CDF and F at the distinct sample values, from the right only and from the left."""
    x = np.sort(np.asarray(sample, dtype=float))
    n = len(x)
    vals, counts = np.unique(x, return_counts=True)
    Fn_right = np.cumsum(counts) / n
    Fn_left = Fn_right - counts / n
    F = np.asarray(cdf(vals), dtype=float)
    F_left = np.asarray(cdf(np.nextafter(vals, -np.inf)), dtype=float)
    return float(max(np.abs(Fn_right - F).max(), np.abs(Fn_left - F_left).max()))


def binom_rejects_at_least(successes, trials, p, delta=DELTA_CMP):
    """True when the exact one-sided binomial test rejects "population fraction >= p"."""
    if trials == 0:
        return False
    return float(_st.binom.cdf(successes, trials, p)) < delta


def binom_max_rejected(trials, p, delta=DELTA_CMP):
    """Largest success count that still rejects (-1 when even 0 successes cannot)."""
    k = -1
    for s in range(trials + 1):
        if float(_st.binom.cdf(s, trials, p)) < delta:
            k = s
        else:
            break
    return k


def clopper_pearson(successes, trials, conf=0.99):
    a = (1 - conf) / 2
    lo = 0.0 if successes == 0 else float(_st.beta.ppf(a, successes, trials - successes + 1))
    hi = 1.0 if successes == trials else float(_st.beta.ppf(1 - a, successes + 1, trials - successes))
    return lo, hi
