"""pytest plugin (-p vmon.pytest_probe): runs the repository's own tests as one more workload under the
always-on probes - the C20 argument-snapshot probe on every public entry point and the C15 global-RNG
snapshot contract on every `sample` - and writes what the probes observed to $VMON_PROBE_OUT.

The tests' own verdicts are not used (importing every sub-module changes the parametrisation of one test,
which then meets known finding F25); only the probes' events are."""
import json
import os


def pytest_sessionstart(session):
    from vmon import snapshot
    from vmon.monitors import c15
    c15.setup_worker(None)
    session.config._vmon_wrapped = snapshot.attach_all()


def pytest_sessionfinish(session, exitstatus):
    from vmon import snapshot
    from vmon.monitors import c15
    evs, calls = snapshot.drain()
    out = {'wrapped': session.config._vmon_wrapped, 'calls': calls,
           'argument_events': [[n, [str(c) for c in ch], bool(r)] for n, ch, r in evs],
           'rng_events': [[str(a), bool(b), bool(c)] for a, b, c in c15._EVENTS],
           'tests_collected': int(getattr(session, 'testscollected', 0)), 'pytest_exit': int(exitstatus)}
    with open(os.environ['VMON_PROBE_OUT'], 'w') as f:
        json.dump(out, f)


def run_repo_tests(tier, tag):
    """Runs <repo>/tests (quick: tests/unit) under the plugin in a subprocess; returns the observation dict or None."""
    import subprocess
    import sys
    from vmon.core import REPO
    here = os.path.dirname(os.path.dirname(os.path.abspath(__file__)))
    outp = os.path.join(here, 'evidence', 'tmp', 'repo_tests_%s_%d.json' % (tag, os.getpid()))
    os.makedirs(os.path.dirname(outp), exist_ok=True)
    if os.path.exists(outp):
        os.remove(outp)
    target = 'tests/unit' if tier == 'quick' else 'tests'
    env = dict(os.environ, VMON_PROBE_OUT=outp)
    try:
        subprocess.run([sys.executable, '-m', 'pytest', '-q', '-p', 'no:cacheprovider', '-p', 'vmon.pytest_probe',
                        '--timeout=900', target], cwd=REPO, env=env, capture_output=True, text=True, timeout=2400)
    except subprocess.TimeoutExpired:
        return None
    if not os.path.exists(outp):
        return None
    with open(outp) as f:
        res = json.load(f)
    os.remove(outp)
    return res
