"""Always-on argument-snapshot probe (C20): wraps every public entry point of the package found by
reflection, so that ANY workload - also the ones written for other properties - is watched for calls
that modify the arrays, frames, dicts or lists passed to them.

Only top-level calls are judged (a depth counter): arguments of nested calls are the library's own
temporaries, not caller-owned inputs.
"""

import functools
import inspect
import types

from vmon.monitors.c20 import digest

_DEPTH = [0]
_EVENTS = []          # (entry point, changed argument positions, raised?)
_CALLS = [0]
_ATTACHED = []


def _wrap(name, fn):
    @functools.wraps(fn)
    def wrapper(*args, **kwargs):
        if _DEPTH[0] > 0:
            return fn(*args, **kwargs)
        _DEPTH[0] += 1
        try:
            judged = [(i, a) for i, a in enumerate(args) if _container(a)] + \
                     [(k, v) for k, v in kwargs.items() if _container(v)]
            before = [digest(a) for _, a in judged]
            raised = False
            try:
                return fn(*args, **kwargs)
            except BaseException:
                raised = True
                raise
            finally:
                _CALLS[0] += 1
                after = [digest(a) for _, a in judged]
                changed = [judged[i][0] for i in range(len(judged)) if before[i] != after[i]]
                if changed:
                    _EVENTS.append((name, changed, raised))
        finally:
            _DEPTH[0] -= 1
    wrapper._vmon_snapshot = True
    return wrapper


def _container(a):
    import numpy as np
    import pandas as pd
    return isinstance(a, (np.ndarray, pd.DataFrame, pd.Series, dict, list))


def attach_all():
    """Wrap the public methods of the public classes and the public module-level functions."""
    import copulas.bivariate as cb
    import copulas.bivariate.base as bb
    import copulas.bivariate.independence as bi
    import copulas.multivariate.base as mb
    import copulas.multivariate.gaussian as mg
    import copulas.multivariate.tree as mt
    import copulas.multivariate.vine as mvv
    import copulas.optimize as co
    import copulas.univariate as cu
    import copulas.univariate.base as ub
    import copulas.univariate.selection as us
    import copulas.visualization as vz
    classes = [ub.Univariate, ub.ScipyModel, cu.GaussianKDE, cu.TruncatedGaussian, cu.BetaUnivariate, cu.GammaUnivariate,
               cu.GaussianUnivariate, cu.StudentTUnivariate, cu.LogLaplace, cu.UniformUnivariate,
               bb.Bivariate, cb.Clayton, cb.Frank, cb.Gumbel, bi.Independence,
               mb.Multivariate, mg.GaussianMultivariate, mvv.VineCopula, mt.Tree, mt.CenterTree, mt.DirectTree, mt.RegularTree]
    n = 0
    for cls in classes:
        for name, attr in list(vars(cls).items()):
            if name.startswith('_') or getattr(attr, '_vmon_snapshot', False):
                continue
            if isinstance(attr, types.FunctionType):
                setattr(cls, name, _wrap('%s.%s' % (cls.__name__, name), attr))
                _ATTACHED.append((cls, name, attr))
                n += 1
            elif isinstance(attr, classmethod):
                inner = attr.__func__
                setattr(cls, name, classmethod(_wrap('%s.%s' % (cls.__name__, name), inner)))
                _ATTACHED.append((cls, name, attr))
                n += 1
    for mod, names in ((co, ('bisect', 'chandrupatla')), (cb, ('select_copula',)), (us, ('select_univariate',)),
                       (vz, [k for k, v in vars(vz).items() if inspect.isfunction(v) and not k.startswith('_')])):
        for name in names:
            fn = getattr(mod, name)
            if getattr(fn, '_vmon_snapshot', False):
                continue
            setattr(mod, name, _wrap('%s.%s' % (mod.__name__.split('.')[-1], name), fn))
            _ATTACHED.append((mod, name, fn))
            n += 1
    # names imported into other modules before wrapping
    import copulas.univariate.gaussian_kde as gk
    gk.bisect, gk.chandrupatla = co.bisect, co.chandrupatla
    ub.select_univariate = us.select_univariate
    return n


def drain():
    evs = list(_EVENTS)
    del _EVENTS[:]
    calls = _CALLS[0]
    _CALLS[0] = 0
    return evs, calls
