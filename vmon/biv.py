"""Helpers shared by the pair-copula monitors (C06-C11): parameter grids, point grids,
model construction on the real classes."""

import numpy as np

from vmon.refs import arch

FAMILIES = ('clayton', 'frank', 'gumbel')

THETA_FIXED = {
    'clayton': [1e-3, 0.01, 0.1, 0.5, 1.0, 2.0, 4.0, 8.0],
    'gumbel': [1.0, 1 + 1e-6, 1.001, 1.1, 1.5, 2.0, 3.5, 5.0],
    'frank': [-18.2, -10.0, -5.0, -2.0, -0.5, -0.01, -1e-3, -2e-4, -1e-6, 1e-6, 2e-4, 1e-3, 0.01, 0.5, 2.0, 5.0, 10.0,
              15.0, 18.2],
}

GRID16 = np.array([0.0, 1e-300, 1e-16, 1e-12, 1e-8, 1e-4, 0.01, 0.3, 0.5, 0.7, 0.99,
                   1 - 1e-4, 1 - 1e-8, 1 - 1e-12, 1 - 1e-16, 1.0])

INTERIOR11 = np.array([1e-4, 1e-3, 0.01, 0.05, 0.3, 0.5, 0.7, 0.95, 0.99, 1 - 1e-3, 1 - 1e-4])


def random_theta(family, rng):
    if family == 'clayton':
        return float(rng.choice([rng.uniform(1e-3, 8.0), 10 ** rng.uniform(-3, np.log10(8.0))]))
    if family == 'gumbel':
        return float(rng.choice([rng.uniform(1.0, 5.0), 1 + 10 ** rng.uniform(-6, np.log10(4.0))]))
    mag = float(rng.choice([rng.uniform(1e-3, 18.2), 10 ** rng.uniform(-6, np.log10(18.2))]))
    return mag if rng.random() < 0.5 else -mag


def theta_list(family, n_random, rng):
    out = list(THETA_FIXED[family])
    out += [random_theta(family, rng) for _ in range(n_random)]
    return out


def cls(family):
    from copulas.bivariate import Clayton, Frank, Gumbel
    from copulas.bivariate.independence import Independence
    return {'clayton': Clayton, 'frank': Frank, 'gumbel': Gumbel,
            'independence': Independence}[family]


def make_model(family, theta, random_state=None):
    """A parameterised model of the real class (theta and the matching tau set)."""
    m = cls(family)(random_state=random_state) if random_state is not None else cls(family)()
    m.theta = float(theta)
    if family in FAMILIES:
        m.tau = float(arch.Arch(family, theta).tau())
    return m


def ulps(a, b):
    """Distance in units of the last place between two float arrays (inf if not finite-equal)."""
    a = np.asarray(a, dtype=float)
    b = np.asarray(b, dtype=float)
    sp = np.spacing(np.maximum(np.abs(a), np.abs(b)))
    with np.errstate(all='ignore'):
        d = np.abs(a - b) / sp
    both_nan = np.isnan(a) & np.isnan(b)
    same_inf = np.isinf(a) & np.isinf(b) & (np.sign(a) == np.sign(b))
    d = np.where(both_nan | same_inf | (a == b), 0.0, d)
    d = np.where(np.isnan(d), np.inf, d)
    return d


def mixed_points(rng, n):
    """Points of the closed unit square: uniform, corner-concentrated, boundary, near-boundary."""
    k = n // 4
    a = rng.random((k, 2))
    b = rng.beta(0.15, 0.15, size=(k, 2))
    c = rng.choice(GRID16, size=(k, 2))
    d = rng.random((n - 3 * k, 2))
    j = rng.integers(0, 2, size=len(d))
    d[np.arange(len(d)), j] = rng.choice(GRID16, size=len(d))
    X = np.vstack([a, b, c, d])
    X = np.clip(X, 0.0, 1.0)
    rng.shuffle(X, axis=0)
    return X


def interior_points(rng, n, lo=1e-4):
    k = n // 3
    a = rng.uniform(lo, 1 - lo, size=(k, 2))
    b = np.clip(rng.beta(0.3, 0.3, size=(k, 2)), lo, 1 - lo)
    c = rng.choice(INTERIOR11, size=(n - 2 * k, 2))
    X = np.vstack([a, b, c])
    rng.shuffle(X, axis=0)
    return X


def reused_model(family, theta, rng):
    """A model instance with a past: parameterised at another theta, evaluated through every public
    function (so that anything cached lazily is filled), then re-parameterised by assignment - the way the
    library itself re-uses instances (vine edges, select_copula candidates)."""
    th0 = random_theta(family, rng)
    m = make_model(family, th0)
    if rng.random() < 0.5:
        # ... or fitted on data first (anything precomputed at fit time must follow a later assignment too)
        from vmon.refs import samplers
        try:
            m.fit(samplers.gaussian(0.5 if family != 'frank' else float(rng.choice([-0.5, 0.5])), 80, rng))
            th0 = m.theta
        except Exception:  # noqa: BLE001
            pass
    X = interior_points(rng, 6)
    for fn in (m.cumulative_distribution, m.probability_density, m.partial_derivative, m.log_probability_density):
        try:
            fn(X)
        except Exception:  # noqa: BLE001
            pass
    try:
        m.percent_point(X[:, 0], X[:, 1])
        m.generator(X[:, 0])
    except Exception:  # noqa: BLE001
        pass
    m.theta = float(theta)
    m.tau = float(arch.Arch(family, theta).tau())
    return m, th0
