"""Helpers for the univariate monitors (C03, C04, C05, C14, C19): model configurations built
on the real classes, dataset generators, and the distribution-function law oracle."""

import numpy as np

from vmon.core import TOL_UNIV, exc_detail, exc_mech, rng_for

CLASSES = ('GaussianUnivariate', 'BetaUnivariate', 'GammaUnivariate', 'StudentTUnivariate',
           'LogLaplace', 'UniformUnivariate', 'TruncatedGaussian', 'GaussianKDE', 'Univariate')

DATA_KINDS = ('normal', 'skewed', 'heavy', 'bimodal', 'five', 'ties', 'tiny', 'huge', 'offset',
              'uniform', 'beta', 'minuscule')


def klass(name):
    import copulas.univariate as cu
    return getattr(cu, name)


def build(spec, data=None):
    """Instantiate a model of the real class from a JSON-able spec {cls, kwargs}."""
    import copulas.univariate as cu
    kwargs = dict(spec.get('kwargs', {}))
    if spec['cls'] == 'TruncatedGaussian' and 'bounds' in kwargs:
        mode = kwargs.pop('bounds')
        if mode == 'loose':
            s = float(np.std(data)) or 1.0
            kwargs.update(minimum=float(np.min(data)) - s, maximum=float(np.max(data)) + s)
        elif mode == 'tight':
            kwargs.update(minimum=float(np.min(data)), maximum=float(np.max(data)))
    if spec['cls'] == 'Univariate':
        if kwargs.get('selection_sample_size') == 'n':          # exactly as many as there are data: no sub-sampling
            kwargs['selection_sample_size'] = len(data)
        if 'parametric' in kwargs and kwargs['parametric'] is not None:
            kwargs['parametric'] = cu.ParametricType[kwargs['parametric']]
        if 'bounded' in kwargs and kwargs['bounded'] is not None:
            kwargs['bounded'] = cu.BoundedType[kwargs['bounded']]
        if kwargs.get('candidates'):
            cands = []
            for c in kwargs['candidates']:
                if isinstance(c, dict):          # instance prototype
                    cands.append(build(c, data))
                elif c.startswith('name:'):      # dotted name
                    cands.append(c[5:])
                else:                            # class
                    cands.append(getattr(cu, c))
            kwargs['candidates'] = cands
    return getattr(cu, spec['cls'])(**kwargs)


def model_specs(rng, tier):
    """Constructor-option sets per class (C03's configuration quantifier)."""
    specs = [{'cls': c} for c in CLASSES if c not in ('TruncatedGaussian', 'GaussianKDE', 'Univariate')]
    specs += [{'cls': 'TruncatedGaussian'}, {'cls': 'TruncatedGaussian', 'kwargs': {'bounds': 'loose'}},
              {'cls': 'TruncatedGaussian', 'kwargs': {'bounds': 'tight'}}]
    for bw in (None, 'scott', 'silverman', 0.05, 0.3, 1.0):
        specs.append({'cls': 'GaussianKDE', 'kwargs': {'bw_method': bw}})
    for ss in (10, 200):
        specs.append({'cls': 'GaussianKDE', 'kwargs': {'sample_size': ss}})
    specs.append({'cls': 'GaussianKDE', 'kwargs': {'sample_size': 50, 'bw_method': 'silverman'}})
    specs.append({'cls': 'Univariate'})
    specs.append({'cls': 'Univariate', 'kwargs': {'parametric': 'PARAMETRIC'}})
    specs.append({'cls': 'Univariate', 'kwargs': {'parametric': 'NON_PARAMETRIC'}})
    specs.append({'cls': 'Univariate', 'kwargs': {'bounded': 'BOUNDED'}})
    specs.append({'cls': 'Univariate', 'kwargs': {'bounded': 'SEMI_BOUNDED'}})
    specs.append({'cls': 'Univariate', 'kwargs': {'parametric': 'PARAMETRIC', 'bounded': 'UNBOUNDED'}})
    specs.append({'cls': 'Univariate', 'kwargs': {'candidates': ['GaussianUnivariate', 'UniformUnivariate']}})
    specs.append({'cls': 'Univariate', 'kwargs': {'candidates': [
        'name:copulas.univariate.BetaUnivariate', {'cls': 'GaussianKDE', 'kwargs': {'bw_method': 0.3}}]}})
    specs.append({'cls': 'Univariate', 'kwargs': {'selection_sample_size': 50}})
    specs.append({'cls': 'Univariate', 'kwargs': {'selection_sample_size': 'n'}})
    return specs


def make_data(spec):
    """Finite numeric sample with >= 5 distinct values, from {kind, n, seed}."""
    rng = rng_for(spec['seed'], 'data')
    n, kind = spec['n'], spec['kind']
    if kind == 'normal':
        x = rng.normal(rng.uniform(-5, 5), 10 ** rng.uniform(-1, 1), n)
    elif kind == 'skewed':
        x = rng.gamma(rng.uniform(0.7, 4), 10 ** rng.uniform(-1, 1), n) + rng.uniform(-3, 3)
    elif kind == 'heavy':
        x = rng.standard_t(3, n) * 10 ** rng.uniform(-1, 1)
    elif kind == 'bimodal':
        k = n // 2
        x = np.concatenate([rng.normal(-6, 1, k), rng.normal(8, 0.5, n - k)])
    elif kind == 'five':
        vals = np.sort(rng.normal(0, 3, 5))
        x = np.concatenate([vals, rng.choice(vals, max(0, n - 5))])
    elif kind == 'ties':
        x = np.round(rng.normal(10, 3, n))
        x[:5] = [6, 8, 10, 12, 14]
    elif kind == 'tiny':
        x = rng.normal(0, 1, n) * 1e-6
    elif kind == 'huge':
        x = rng.lognormal(0, 0.5, n) * 1e6
    elif kind == 'offset':
        x = 1e6 + rng.normal(0, 1, n)
    elif kind == 'minuscule':
        # non-constant data whose spread is far below any absolute tolerance (5 + 1e-9 * N(0,1))
        x = float(rng.choice([0.0, 5.0])) + 10 ** rng.uniform(-10, -9) * rng.standard_normal(n)
    elif kind == 'uniform':
        x = rng.uniform(rng.uniform(-2, 0), rng.uniform(1, 5), n)
    elif kind == 'beta':
        x = rng.beta(rng.uniform(0.6, 5), rng.uniform(0.6, 5), n) * rng.uniform(0.5, 20) + rng.uniform(-5, 5)
    else:
        raise ValueError(kind)
    rng.shuffle(x)
    return np.asarray(x, dtype=float)


_GL16 = np.polynomial.legendre.leggauss(16)


def _composite_gl(f, a, b, panels):
    x, w = _GL16
    edges = np.linspace(a, b, panels + 1)
    mid = (edges[:-1] + edges[1:]) / 2
    half = (edges[1:] - edges[:-1]) / 2
    pts = (mid[:, None] + half[:, None] * x[None, :]).ravel()
    vals = np.asarray(f(pts), dtype=float).reshape(panels, len(x))
    return float((vals * w[None, :] * half[:, None]).sum())


Q_GRID = np.array([0.0, 1e-9, 1e-6, 1e-3, 0.01, 0.05, 0.1, 0.25, 0.4, 0.5, 0.6, 0.75, 0.9, 0.95, 0.99,
                   1 - 1e-3, 1 - 1e-6, 1 - 1e-9, 1.0])
Q_NODES = np.array([0.05, 0.1, 0.25, 0.4, 0.5, 0.6, 0.75, 0.9, 0.95])


def _call(ctx, fn, arg, probe, where, prop, **kw):
    ok, res = ctx.call(fn, arg, **kw)
    if not ok:
        ctx.violation(probe, '%s:%s-%s' % (prop, probe, exc_mech(res)), dict(exc_detail(res), **where))
        return None
    return np.asarray(res, dtype=float)


def _param_magnitude(model):
    """Magnitude of the fitted loc/scale: (x - loc) / scale is computed at THAT floating-point resolution
    (a diverged scipy MLE can return loc = -3e14, scale = 3e14 for data around 5)."""
    inner = getattr(model, '_instance', None) or model
    p = getattr(inner, '_params', None) or {}
    vals = [abs(float(p[k])) for k in ('loc', 'scale') if k in p and np.isfinite(p[k])]
    return max(vals) if vals else 0.0


def _kde_truncated_mass(model):
    """Kernel mass below min - 5 std of a fitted GaussianKDE, from the definition (None otherwise)."""
    inner = getattr(model, '_instance', None) or model
    if type(inner).__name__ != 'GaussianKDE' or getattr(inner, '_model', None) is None:
        return None
    try:
        from scipy.special import ndtr
        x = np.asarray(inner._params['dataset'], dtype=float)
        lower = x.min() - 5 * x.std()
        kde = inner._model
        h = float(np.sqrt(kde.covariance[0, 0]))
        return float(np.dot(ndtr((lower - x) / h), kde.weights))
    except Exception:  # noqa: BLE001
        return None


class ScipyTwin:
    """scipy's own distribution functions at the fitted parameters, behind the library's method names."""

    def __init__(self, dist, params):
        self._dist, self._params = dist, dict(params)

    def cumulative_distribution(self, x):
        return self._dist.cdf(x, **self._params)

    def probability_density(self, x):
        return self._dist.pdf(x, **self._params)

    def log_probability_density(self, x):
        return self._dist.logpdf(x, **self._params)

    def percent_point(self, q):
        return self._dist.ppf(q, **self._params)

    cdf, pdf, ppf = cumulative_distribution, probability_density, percent_point


def scipy_twin(model):
    inner = getattr(model, '_instance', None) or model
    dist, params = getattr(inner, 'MODEL_CLASS', None), getattr(inner, '_params', None)
    if dist is None or not params or type(inner).__name__ == 'GaussianKDE' or not hasattr(dist, 'cdf'):
        return None
    return ScipyTwin(dist, params)


def reference_percent_point(model):
    """Quantile function to judge sampled values against: scipy's own ppf at the fitted parameters for the
    scipy-backed families (so that anything the library does to the probabilities on the way is visible), the
    model's own method for kernel estimates and point masses (judged by C03/C04)."""
    inner = getattr(model, '_instance', None) or model
    if getattr(inner, '_constant_value', None) is not None:
        return model.percent_point
    twin = scipy_twin(model)
    return twin.percent_point if twin is not None else model.percent_point


def laws(ctx, model, data, where, prop='C03', full=True):
    """The law oracle, with one refinement for the scipy-backed families: the library only delegates to
    scipy.stats, and scipy's own pdf / logpdf / cdf / ppf become mutually inconsistent for extreme fitted
    parameters (a beta selected for data of scale 1e-6: logpdf off by 0.02, cdf(ppf(0.01)) off by 2e-6).  A law
    that scipy's own functions break in the same way at the same parameters is counted inconclusive; and
    the delegation itself is checked exactly, so that any deviation of the library from scipy is judged by the
    laws in full."""
    from vmon.core import Ctx
    twin = scipy_twin(model)
    if twin is None:
        return _laws(ctx, model, data, where, prop, full)
    sub = Ctx(ctx.prop, ctx.tier, ctx.seed)
    sub.spec, sub.case_index = ctx.spec, ctx.case_index
    _laws(sub, model, data, where, prop, full)
    viol = [e for e in sub.events if e['verdict'] == 'violation']
    excused = set()
    if viol:
        sub2 = Ctx(ctx.prop, ctx.tier, ctx.seed)
        try:
            _laws(sub2, twin, data, where, prop, full)
        except Exception:  # noqa: BLE001
            pass
        twin_mechs = {e['mech'] for e in sub2.events if e['verdict'] == 'violation'}
        excused = {id(e) for e in viol if e['mech'] in twin_mechs}
    for e in sub.events:
        if id(e) in excused:
            ctx.note("law broken by scipy's own functions at the fitted parameters (inconclusive): " + e['mech'])
            ctx.counters[e['probe']] -= 0
        else:
            ctx.events.append(e)
    ctx.counters.update(sub.counters)
    ctx.notes.update(sub.notes)
    for k, v in sub.stats.items():
        ctx.maxstat(k, v['max'], v['at'])
    # the library's functions ARE scipy's at the fitted parameters
    x = np.quantile(data, [0.0, 0.2, 0.5, 0.9, 1.0])
    q = np.array([0.0, 0.1, 0.5, 0.99, 1.0])
    for name, arg in (('cumulative_distribution', x), ('probability_density', x), ('log_probability_density', x), ('percent_point', q)):
        oa, a = ctx.call(getattr(model, name), arg)
        ob, b = ctx.call(getattr(twin, name), arg)
        ctx.check(oa == ob and (not oa or np.array_equal(np.asarray(a, dtype=float), np.asarray(b, dtype=float), equal_nan=True)),
                  'delegates-to-scipy', prop + ':%s-is-not-scipys-function-at-the-fitted-parameters' % name, where)


def _laws(ctx, model, data, where, prop='C03', full=True):
    """Distribution-function laws on a fitted, non-constant univariate model."""
    lo, hi = float(np.min(data)), float(np.max(data))
    span = hi - lo if hi > lo else 1.0
    scale = float(np.std(data)) or span
    qs = np.quantile(data, [0, 0.01, 0.05, 0.25, 0.5, 0.75, 0.95, 0.99, 1])
    far = np.array([lo - 10 * span, lo - 1000 * span, hi + 10 * span, hi + 1000 * span])
    nb = np.concatenate([np.nextafter(qs[[0, 4, 8]], -np.inf), np.nextafter(qs[[0, 4, 8]], np.inf)])
    base = np.unique(np.concatenate([qs, far, nb]))
    mids = (base[:-1] + base[1:]) / 2
    pts = np.unique(np.concatenate([base, mids, [-np.inf, np.inf]]))

    F = _call(ctx, model.cumulative_distribution, pts, 'cdf', where, prop)
    if F is not None:
        d = np.diff(F)
        k = int(np.argmin(d)) if len(d) else 0
        ctx.check(not np.isnan(F).any() and d.min() >= -1e-12, 'cdf.monotone', prop + ':cdf-not-monotone',
                  lambda: dict(where, at=[pts[k], pts[k + 1]], values=[F[k], F[k + 1]]))
        # GaussianKDE subtracts the kernel mass m below its lower search bracket from every CDF
        # value (known finding F2): when a range/limit excess is exactly that mass, say so
        trunc = _kde_truncated_mass(model)
        rng_mech, lim_mech = prop + ':cdf-out-of-range', prop + ':cdf-limits'
        if trunc is not None and not np.isnan(F).any():
            if -F.min() <= trunc * (1 + 1e-6) + 1e-15 and F.max() <= 1 + TOL_UNIV:
                rng_mech = prop + ':kde-cdf-truncated-tail-mass'
            if abs(F[0] + trunc) <= 1e-12 and abs(1 - F[-1] - trunc) <= 1e-12:
                lim_mech = prop + ':kde-cdf-truncated-tail-mass'
        ctx.check((F >= -TOL_UNIV).all() and (F <= 1 + TOL_UNIV).all(), 'cdf.range', rng_mech,
                  lambda: dict(where, min=float(np.nanmin(F)), max=float(np.nanmax(F)), truncated_mass=trunc))
        ctx.check(abs(F[0]) <= TOL_UNIV and F[-1] >= 1 - TOL_UNIV, 'cdf.limits', lim_mech,
                  lambda: dict(where, at_minus_inf=F[0], at_plus_inf=F[-1], truncated_mass=trunc))
        ctx.maxstat('|cdf(-inf)| or 1-cdf(+inf)', max(abs(F[0]), 1 - F[-1]), where)
    fin = pts[np.isfinite(pts)]
    p = _call(ctx, model.probability_density, fin, 'pdf', where, prop)
    if p is not None:
        ctx.check(not np.isnan(p).any() and (p >= 0).all(), 'pdf.nonnegative', prop + ':pdf-negative-or-nan',
                  lambda: dict(where, at=fin[~(p >= 0)][:3], got=p[~(p >= 0)][:3]))
        inner = fin[(fin > lo) & (fin < hi)]
        lp = _call(ctx, model.log_probability_density, inner, 'logpdf', where, prop)
        pi = _call(ctx, model.probability_density, inner, 'pdf', where, prop)
        if lp is not None and pi is not None:
            pos = pi > 1e-300
            # scipy's own pdf and logpdf disagree by up to 4e-5 (beta with huge shape parameters,
            # observed); a wrong function differs by orders of magnitude more
            err = np.abs(lp[pos] - np.log(pi[pos])) / (1e-3 * (1 + np.abs(np.log(pi[pos]))))
            err = np.where(lp[pos] == np.log(pi[pos]), 0.0, np.where(np.isnan(err), np.inf, err))
            k = int(np.argmax(err)) if err.size else 0
            ctx.check(err.size == 0 or err[k] <= 1, 'logpdf.is-log', prop + ':logpdf-not-log-pdf',
                      lambda: dict(where, at=inner[pos][k], logpdf=lp[pos][k], log_of_pdf=float(np.log(pi[pos][k]))))

    # the short names are the same functions
    xa = np.quantile(data, [0.2, 0.6])
    for long_, short in (('probability_density', 'pdf'), ('cumulative_distribution', 'cdf'), ('percent_point', 'ppf')):
        arg = xa if short != 'ppf' else np.array([0.2, 0.6])
        oa, a = ctx.call(getattr(model, long_), arg)
        ob, b = ctx.call(getattr(model, short), arg)
        ctx.check(oa == ob and (not oa or np.array_equal(np.asarray(a), np.asarray(b), equal_nan=True)), 'alias.same-function',
                  prop + ':alias-%s-differs-from-%s' % (short, long_), where)
    # quantile function ----------------------------------------------------------------------------
    methods = [None]
    if type(model).__name__ == 'GaussianKDE' and full:
        methods = [None, 'bisect']
    for method in methods:
        kw = {} if method is None else {'method': method}
        w2 = where if method is None else dict(where, method=method)
        ok, X = ctx.call(model.percent_point, Q_GRID, **kw)
        if not ok:
            # observe which probabilities fail alone: that is the mechanism
            exc = X
            failing = []
            for q in Q_GRID:
                o, r = ctx.call(model.percent_point, np.array([q]), **kw)
                if not o:
                    failing.append(float(q))
            mech = '%s:ppf-%s' % (prop, exc_mech(exc))
            det = dict(exc_detail(exc), **w2, failing_q=failing)
            if type(model).__name__ == 'GaussianKDE' and isinstance(exc, AssertionError) and failing:
                # the root finder's bracket assertion: is every failing q above the model's own
                # (truncated) CDF at the upper end of its search bracket?
                try:
                    top = float(model.cumulative_distribution(np.array([model._get_bounds()[1]]))[0])
                    if min(failing) > top:
                        mech = '%s:kde-ppf-q-above-cdf-at-upper-bracket' % prop
                        det['cdf_at_upper_bracket'] = top
                except Exception:  # noqa: BLE001
                    pass
            ctx.violation('ppf', mech, det)
            X = None
        else:
            X = np.asarray(X, dtype=float)
        if X is None:
            good = np.array([q for q in Q_GRID if q not in failing])
            if len(good) < 3:
                continue
            qg = good
            ok, X = ctx.call(model.percent_point, qg, **kw)
            if not ok:
                continue
            X = np.asarray(X, dtype=float)
        else:
            qg = Q_GRID
        ctx.check(not np.isnan(X).any() and (X[1:] >= X[:-1]).all(), 'ppf.monotone', prop + ':ppf-not-monotone',
                  lambda: dict(w2, q=qg, x=X))
        inner = (qg >= 1e-6) & (qg <= 1 - 1e-6) & np.isfinite(X)
        xi, qi = X[inner], qg[inner]
        # a few ulps at the magnitude at which the model standardises x: (x - loc) / scale loses
        # the ulps of x when |loc| or the data range exceed |x|
        step = 8 * np.spacing(np.maximum(np.abs(xi), max(abs(lo), abs(hi), span, _param_magnitude(model)))) + 1e-300
        if method == 'bisect':
            step = step + 1e-8          # bisect's documented absolute tolerance in x (C18)
        elif type(getattr(model, '_instance', None) or model).__name__ == 'GaussianKDE':
            step = step + 2e-15         # chandrupatla's absolute termination floor (eps_a = 2 * machine epsilon)
        Fl = _call(ctx, model.cumulative_distribution, xi - step, 'cdf', w2, prop)
        Fr = _call(ctx, model.cumulative_distribution, xi + step, 'cdf', w2, prop)
        if Fl is not None and Fr is not None:
            bad = ~((Fl - TOL_UNIV <= qi) & (qi <= Fr + TOL_UNIV))
            k = int(np.argmax(bad))
            ctx.check(not bad.any(), 'ppf.inverts-cdf', prop + ':cdf-of-ppf-not-q',
                      lambda: dict(w2, q=qi[k], x=xi[k], cdf_left=Fl[k], cdf_right=Fr[k]))
            ctx.ok('ppf.inverts-cdf', len(qi) - 1)
    # ppf(cdf(x)) = x where the density is positive ---------------------------------------------------
    xs = np.quantile(data, [0.02, 0.1, 0.3, 0.5, 0.7, 0.9, 0.98])
    Fx = _call(ctx, model.cumulative_distribution, xs, 'cdf', where, prop)
    px = _call(ctx, model.probability_density, xs, 'pdf', where, prop)
    if Fx is not None and px is not None:
        sel = (px * scale > 1e-3) & (Fx > 1e-6) & (Fx < 1 - 1e-6)
        if sel.any():
            back = _call(ctx, model.percent_point, Fx[sel], 'ppf', where, prop)
            if back is not None:
                tol = TOL_UNIV / px[sel] + 1e-9 * scale + 8 * np.spacing(np.abs(xs[sel]))
                err = np.abs(back - xs[sel]) / tol
                err = np.where(np.isnan(err), np.inf, err)
                k = int(np.argmax(err))
                ctx.check(err[k] <= 1, 'ppf.of-cdf-is-x', prop + ':ppf-of-cdf-not-x',
                          lambda: dict(where, x=xs[sel][k], back=back[k], pdf=px[sel][k]))
                ctx.ok('ppf.of-cdf-is-x', int(sel.sum()) - 1)
    if not full:
        return
    # integral identity between consecutive model quantiles ---------------------------------------------
    xq = _call(ctx, model.percent_point, Q_NODES, 'ppf', where, prop)
    if xq is None or not np.isfinite(xq).all():
        return
    Fq = _call(ctx, model.cumulative_distribution, xq, 'cdf', where, prop)
    if Fq is None:
        return
    for i in range(len(xq) - 1):
        a, b = xq[i], xq[i + 1]
        if not b > a:
            continue
        if b - a < 1e-9 * max(abs(a), abs(b), span) or b - a < 1e-7 * _param_magnitude(model):
            # the fitted law is a spike at floating-point resolution: quadrature nodes collapse
            ctx.note('pdf.integral interval narrower than 1e-9 of the data range (inconclusive)')
            continue
        ok8, i8 = ctx.call(_composite_gl, model.probability_density, a, b, 8)
        ok16, i16 = ctx.call(_composite_gl, model.probability_density, a, b, 16)
        if not (ok8 and ok16):
            exc = i8 if not ok8 else i16
            ctx.violation('pdf.integral', prop + ':pdf-integral-' + exc_mech(exc), dict(exc_detail(exc), **where))
            break
        if not abs(i8 - i16) <= 1e-7:
            ctx.note('pdf.integral quadrature unconverged (inconclusive)')
            continue
        inc = Fq[i + 1] - Fq[i]
        ctx.check(abs(i16 - inc) <= TOL_UNIV, 'pdf.integral', prop + ':pdf-integral-not-cdf-increment',
                  lambda: dict(where, interval=[a, b], integral=i16, increment=inc))
        ctx.maxstat('|int pdf - cdf increment|', abs(i16 - inc), where)


def constant_laws(ctx, model, c, where, prop='C03', tag=''):
    """Point mass at c: unit-step CDF, percent_point == c, sample == c."""
    pts = np.array([c - 1.0 - abs(c), np.nextafter(c, -np.inf), c, np.nextafter(c, np.inf), c + 1.0 + abs(c)])
    F = _call(ctx, model.cumulative_distribution, pts, 'constant.cdf' + tag, where, prop)
    if F is not None:
        ctx.check(np.array_equal(F, [0, 0, 1, 1, 1]), 'constant.cdf-is-step', prop + ':constant-cdf-not-step' + tag,
                  lambda: dict(where, c=c, cdf=F))
    q = np.array([0.0, 1e-9, 0.3, 0.5, 1 - 1e-9, 1.0])
    X = _call(ctx, model.percent_point, q, 'constant.ppf' + tag, where, prop)
    if X is not None:
        ctx.check(X.shape == q.shape and (X == c).all(), 'constant.ppf-is-c', prop + ':constant-ppf-not-c' + tag,
                  lambda: dict(where, c=c, ppf=X))
    ok, s = ctx.call(model.sample, 7)
    if not ok:
        ctx.violation('constant.sample' + tag, prop + ':constant-sample-' + exc_mech(s), dict(exc_detail(s), **where))
    else:
        s = np.asarray(s, dtype=float)
        ctx.check(s.shape == (7,) and (s == c).all(), 'constant.sample-is-c', prop + ':constant-sample-not-c' + tag,
                  lambda: dict(where, c=c, sample=s))


def selected_family(model):
    """Class name of the family a selecting Univariate wrapper chose (public dict first)."""
    try:
        return model.to_dict()['type'].rsplit('.', 1)[-1]
    except Exception:  # noqa: BLE001
        inner = getattr(model, '_instance', None)
        return type(inner).__name__ if inner is not None else None
