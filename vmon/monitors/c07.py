"""C07 - copula density and conditional CDF are the derivatives of the CDF."""

import numpy as np

from vmon import biv
from vmon.core import EPS32, exc_detail, exc_mech, rng_for
from vmon.refs import arch

PROPERTY = 'C07'
RULE = ('one case per (family, theta) as in C06; per case interior points of [1e-4,1-1e-4]^2 '
        '(uniform, corner-concentrated, grid), 64-point u-lines, random rectangles with side '
        '1e-3..0.3 for the integral identities, random batch recompositions; plus the base-class '
        'finite-difference fallback on a harness subclass; non-trivial = reference comparison of '
        'both h and density ran on finite outputs; distinct by (family, theta)')
DECIDING = {'h.reference': 500, 'pdf.reference': 500, 'pdf.integral': 50, 'h.integral': 50,
            'row-independence': 20}
ASSUMPTIONS = ['mpmath reference: dC/dv = psi\'(v)/psi\'(C), c = -psi\'\'(C)psi\'(u)psi\'(v)/psi\'(C)^3',
               'Gauss-Legendre 16 vs 32 nodes; an interval where they disagree is counted inconclusive',
               'tolerances: rel 1e-6 + abs 1e-9 against the reference; abs 2e-9 + rel 1e-6 on integrals']

_GL = {}


def gl(n):
    if n not in _GL:
        _GL[n] = np.polynomial.legendre.leggauss(n)
    return _GL[n]


def cases(seed, tier):
    rng = rng_for(seed, 'C07')
    n_rand = 8 if tier == 'quick' else 2000
    out = []
    for fam in biv.FAMILIES:
        for th in biv.theta_list(fam, n_rand, rng):
            out.append({'family': fam, 'theta': th, 'n_ref': 120 if tier == 'quick' else 400,
                        'n_rect': 24 if tier == 'quick' else 80,
                        'seed': int(rng.integers(1 << 31))})
    out.append({'family': 'fallback', 'theta': None, 'seed': int(rng.integers(1 << 31))})
    return out


def _call(ctx, fn, X, probe, where):
    ok, res = ctx.call(fn, X)
    if not ok:
        ctx.violation(probe + '.call', 'C07:%s-%s' % (probe, exc_mech(res)), dict(exc_detail(res), **where))
        return None
    res = np.asarray(res, dtype=float)
    if res.shape != (len(X),):
        ctx.violation(probe + '.call', 'C07:%s-shape' % probe, dict(where, shape=list(res.shape)))
        return None
    return res


def _fallback(spec, ctx):
    """Base-class finite-difference partial_derivative on a subclass that only defines the CDF."""
    from copulas.bivariate.base import Bivariate

    class Product(Bivariate):
        theta = 1.0
        theta_interval = [0, 2]

        def cumulative_distribution(self, X):
            return X[:, 0] * X[:, 1]

    rng = rng_for(spec['seed'])
    X = biv.interior_points(rng, 300)
    m = Product()
    h = _call(ctx, m.partial_derivative, X, 'fallback', {'family': 'fallback'})
    if h is None:
        return
    d = np.abs(h - X[:, 0])
    k = int(np.argmax(np.where(np.isnan(d), np.inf, d)))
    ctx.check(d[k] <= 1e-6, 'fallback.derivative', 'C07:fallback-derivative',
              lambda: {'at': X[k], 'got': h[k], 'want': X[k, 0]})
    ctx.ok('fallback.derivative', len(X) - 1)
    ok, s = ctx.call(m.partial_derivative_scalar, 0.3, 0.6)
    ctx.check(ok and abs(float(np.ravel(s)[0]) - 0.3) <= 1e-6, 'fallback.derivative',
              'C07:fallback-scalar', lambda: {'got': repr(s)})
    ctx.nontriv('fallback')


def run_case(spec, ctx):
    fam, th = spec['family'], spec['theta']
    if fam == 'fallback':
        return _fallback(spec, ctx)
    rng = rng_for(spec['seed'])
    where = {'family': fam, 'theta': th}
    model = biv.make_model(fam, th)

    X = biv.interior_points(rng, spec['n_ref'])
    h = _call(ctx, model.partial_derivative, X, 'h', where)
    c = _call(ctx, model.probability_density, X, 'pdf', where)
    if h is not None:
        href = arch.h_array(fam, th, X[:, 0], X[:, 1])
        d = np.abs(h - href) - (1e-6 * np.abs(href) + 1e-9)
        d = np.where(np.isnan(d), np.inf, d)
        k = int(np.argmax(d))
        ctx.check(d[k] <= 0, 'h.reference', 'C07:h-ref-mismatch',
                  lambda: dict(where, at=X[k], got=h[k], ref=href[k]))
        ctx.ok('h.reference', len(X) - 1)
        ctx.maxstat('|h - h_ref|', np.nanmax(np.abs(h - href)), where)
        bad = ~((h >= -EPS32) & (h <= 1 + EPS32))
        ctx.check(not bad.any(), 'h.range', 'C07:h-range',
                  lambda: dict(where, at=X[bad][:3], got=h[bad][:3]))
    if c is not None:
        cref = arch.pdf_array(fam, th, X[:, 0], X[:, 1])
        rel = np.abs(c - cref) / (1e-6 * np.abs(cref) + 1e-9)
        rel = np.where(np.isnan(rel), np.inf, rel)
        k = int(np.argmax(rel))
        ctx.check(rel[k] <= 1, 'pdf.reference', 'C07:pdf-ref-mismatch',
                  lambda: dict(where, at=X[k], got=c[k], ref=cref[k],
                               relerr=abs(c[k] - cref[k]) / (abs(cref[k]) + 1e-300),
                               near_11=bool(X[k].min() > 0.9)))
        ctx.ok('pdf.reference', len(X) - 1)
        ctx.maxstat('pdf rel. error vs reference', np.nanmax(np.abs(c - cref) / (np.abs(cref) + 1e-300)),
                    dict(where, at=X[k].tolist()))
        bad = ~(c >= 0)
        ctx.check(not bad.any(), 'pdf.nonnegative', 'C07:pdf-negative',
                  lambda: dict(where, at=X[bad][:3], got=c[bad][:3]))
        ct = _call(ctx, model.probability_density, X[:, ::-1].copy(), 'pdf', where)
        if ct is not None:
            s = np.abs(c - ct) / (1e-9 * np.abs(c) + 1e-12)
            s = np.where(np.isnan(s), np.inf, s)
            k2 = int(np.argmax(s))
            ctx.check(s[k2] <= 1, 'pdf.symmetry', 'C07:pdf-asymmetric',
                      lambda: dict(where, at=X[k2], c_uv=c[k2], c_vu=ct[k2]))
        lp = _call(ctx, model.log_probability_density, X, 'logpdf', where)
        if lp is not None:
            pos = c > 1e-300
            e = np.abs(lp[pos] - np.log(c[pos])) / (1e-9 * np.abs(np.log(c[pos])) + 1e-12)
            ctx.check(e.size == 0 or np.nanmax(np.where(np.isnan(e), np.inf, e)) <= 1,
                      'logpdf.is-log', 'C07:logpdf-not-log', where)
        pa = ctx.call(model.pdf, X)
        ctx.check(pa[0] and np.array_equal(np.asarray(pa[1]), c, equal_nan=True), 'pdf.alias',
                  'C07:alias-differs', where)
    if h is not None and c is not None and np.isfinite(h).all() and np.isfinite(c).all():
        ctx.nontriv('%s|%r' % (fam, th))

    # u-lines: monotone in u, 0 at u=0, 1 at u=1 ------------------------------------------
    for v in rng.choice(biv.INTERIOR11, size=4, replace=False).tolist() + [float(rng.uniform(1e-4, 1 - 1e-4))]:
        us = np.sort(np.concatenate([np.linspace(1e-4, 1 - 1e-4, 54), rng.uniform(1e-4, 1 - 1e-4, 10)]))
        L = np.column_stack([us, np.full(len(us), v)])
        hl = _call(ctx, model.partial_derivative, L, 'h', where)
        if hl is None:
            continue
        dh = np.diff(hl)
        ctx.check(np.isfinite(hl).all() and dh.min() >= -1e-9, 'h.monotone-in-u', 'C07:h-not-monotone',
                  lambda: dict(where, v=v, worst=float(np.nanmin(dh))))
        E = np.array([[0.0, v], [1.0, v]])
        he = ctx.call(model.partial_derivative, E)
        if he[0] and np.isfinite(np.asarray(he[1], dtype=float)).all():
            he = np.asarray(he[1], dtype=float)
            ctx.check(abs(he[0]) <= EPS32 and abs(he[1] - 1) <= EPS32, 'h.endpoints', 'C07:h-endpoints',
                      lambda: dict(where, v=v, h0=he[0], h1=he[1]))
        else:
            ctx.note('h endpoints non-finite or raising (outside the open square; not judged)')

    # integral identities -----------------------------------------------------------------
    n = spec['n_rect']
    side = 10 ** rng.uniform(-3, np.log10(0.3), size=(n, 2))
    a = rng.uniform(1e-4, 1 - 1e-4 - side)
    b = a + side
    x16, w16 = gl(16)
    x32, w32 = gl(32)

    def integrate_h(nodes, weights):
        # int_{v1}^{v2} h(u, v) dv with u = b[:,0]
        vv = (a[:, 1, None] + b[:, 1, None]) / 2 + (b[:, 1, None] - a[:, 1, None]) / 2 * nodes[None, :]
        uu = np.repeat(b[:, 0, None], len(nodes), axis=1)
        vals = model.partial_derivative(np.column_stack([uu.ravel(), vv.ravel()])).reshape(vv.shape)
        return (vals * weights[None, :]).sum(axis=1) * (b[:, 1] - a[:, 1]) / 2

    def integrate_c(nodes, weights):
        uu = (a[:, 0, None] + b[:, 0, None]) / 2 + (b[:, 0, None] - a[:, 0, None]) / 2 * nodes[None, :]
        vv = (a[:, 1, None] + b[:, 1, None]) / 2 + (b[:, 1, None] - a[:, 1, None]) / 2 * nodes[None, :]
        UU = np.repeat(uu[:, :, None], len(nodes), axis=2)
        VV = np.repeat(vv[:, None, :], len(nodes), axis=1)
        vals = model.probability_density(np.column_stack([UU.ravel(), VV.ravel()])).reshape(UU.shape)
        ww = weights[:, None] * weights[None, :]
        return (vals * ww[None]).sum(axis=(1, 2)) * (b[:, 0] - a[:, 0]) * (b[:, 1] - a[:, 1]) / 4

    okc, Cs = ctx.call(lambda: (
        model.cumulative_distribution(np.column_stack([b[:, 0], b[:, 1]])),
        model.cumulative_distribution(np.column_stack([b[:, 0], a[:, 1]])),
        model.cumulative_distribution(np.column_stack([a[:, 0], b[:, 1]])),
        model.cumulative_distribution(np.column_stack([a[:, 0], a[:, 1]]))))
    if okc:
        c22, c21, c12, c11 = [np.asarray(z, dtype=float) for z in Cs]
        for name, integ, target in (('h.integral', integrate_h, c22 - c21),
                                    ('pdf.integral', integrate_c, c22 - c21 - c12 + c11)):
            ok1, i16 = ctx.call(integ, x16, w16)
            ok2, i32 = ctx.call(integ, x32, w32)
            if not (ok1 and ok2):
                exc = i16 if not ok1 else i32
                ctx.violation(name, 'C07:%s-%s' % (name, exc_mech(exc)), dict(exc_detail(exc), **where))
                continue
            tol = 2e-9 + 1e-6 * np.abs(target)
            unconverged = ~(np.abs(i16 - i32) <= 0.05 * tol)
            ctx.note('%s quadrature unconverged (inconclusive)' % name, int(unconverged.sum()))
            resid = np.abs(i32 - target) / tol
            resid = np.where(np.isnan(resid), np.inf, resid)
            resid[unconverged & np.isfinite(i32)] = 0.0
            k = int(np.argmax(resid))
            ctx.check(resid[k] <= 1, name, 'C07:%s-mismatch' % name,
                      lambda: dict(where, rect=[a[k, 0], b[k, 0], a[k, 1], b[k, 1]],
                                   integral=i32[k], increment=target[k]))
            ctx.ok(name, int((~unconverged).sum()) - 1 if (~unconverged).sum() > 0 else 0)
            ctx.maxstat(name + ' residual/tolerance', resid[k], where)

    # row independence ----------------------------------------------------------------------
    for fn, probe in ((model.partial_derivative, 'h'), (model.probability_density, 'pdf')):
        B = biv.interior_points(rng, 24)
        extreme = np.column_stack([rng.uniform(1e-4, 1 - 1e-4, 4), np.full(4, 1e-4)])
        for batch in (B, np.vstack([extreme, B[:3]]), B[rng.permutation(len(B))][:5]):
            whole = _call(ctx, fn, batch, probe, where)
            if whole is None:
                continue
            single = []
            for i in range(len(batch)):
                r = _call(ctx, fn, batch[i:i + 1].copy(), probe, where)
                if r is None:
                    break
                single.append(r[0])
            else:
                single = np.array(single)
                u = biv.ulps(whole, single)
                k = int(np.argmax(u))
                ctx.check(u[k] <= 8, 'row-independence', 'C07:%s-row-dependence' % probe,
                          lambda: dict(where, row=batch[k], in_batch=whole[k], alone=single[k]))
    # instance reuse: an instance re-parameterised by assignment behaves like a fresh one -------------------
    reused, th0 = biv.reused_model(fam, th, rng)
    fresh = biv.make_model(fam, th)
    R = biv.interior_points(rng, 40)
    ok_r, a = ctx.call(reused.partial_derivative, R)
    ok_f, b = ctx.call(fresh.partial_derivative, R)
    ctx.check(ok_r and ok_f and (biv.ulps(a, b) <= 8).all(), 'instance-reuse', 'C07:h-depends-on-instance-history',
              lambda: dict(where, previous_theta=th0))
    ok_r, a = ctx.call(reused.probability_density, R)
    ok_f, b = ctx.call(fresh.probability_density, R)
    ctx.check(ok_r and ok_f and (biv.ulps(a, b) <= 8).all(), 'instance-reuse', 'C07:pdf-depends-on-instance-history',
              lambda: dict(where, previous_theta=th0))
    ctx.sample({'family': fam, 'theta': th, 'reference_points': len(X), 'rectangles': n})
