"""C15 - sampling is reproducible per model seed and never perturbs the global RNG."""

import copy
import hashlib
import pickle

import icontract
import numpy as np

from vmon import vines, biv, mv, uni
from vmon.core import exc_detail, exc_mech, rng_for
from vmon.refs import arch

PROPERTY = 'C15'
RULE = ('history cases: k in 2..5 fitted models of mixed sampler classes (every univariate class incl. the '
        'selecting wrapper, Clayton/Frank/Gumbel, Gaussian multivariate incl. conditional sampling, the '
        'three vine types), seeds given as int or RandomState, a random interleaving of 10..40 sample '
        'calls with interspersed global np.random draws and set_random_state re-seedings; oracle: every '
        'model replayed alone on an equal fresh model reproduces its outputs bit-for-bit, the global '
        'draws equal those of a run in which no model sampled, and an icontract snapshot/postcondition '
        'on every sample() (plus an on-raise probe) sees the global np.random state unchanged; unseeded '
        'models are reproducible through np.random.seed; dataset generators are deterministic in '
        '(size, seed), return `size` rows and leave the global state alone; non-trivial = a history with '
        '>= 2 models was replayed; distinct by history spec')
DECIDING = {'global-state-unchanged': 200, 'history.replay-equal': 100, 'history.global-draws-unperturbed': 20,
            'unseeded.reproducible-through-global': 20, 'datasets.deterministic': 20}
ASSUMPTIONS = ['sha1 of np.random.get_state() identifies the global generator state',
               'equal models are obtained by deep-copying a fitted model before any sampling']

KINDS = ['u:GaussianUnivariate', 'u:BetaUnivariate', 'u:GammaUnivariate', 'u:StudentTUnivariate', 'u:LogLaplace',
         'u:UniformUnivariate', 'u:TruncatedGaussian', 'u:GaussianKDE', 'u:Univariate',
         'b:clayton', 'b:frank', 'b:gumbel', 'g:class', 'g:default', 'g:cond', 'v:center', 'v:direct', 'v:regular']

_EVENTS = []           # filled by the contracts, drained per case


def digest():
    st = np.random.get_state()
    h = hashlib.sha1()
    h.update(st[1].tobytes())
    h.update(repr(st[2:]).encode())
    return h.hexdigest()


def seed_global(s):
    """Puts the global generator in an arbitrary reachable state: seeded, a few values consumed and - for odd
    s - a Gaussian value pending in the Box-Muller cache (part of the state save/restore code must keep)."""
    s = int(s) % (2 ** 31)
    np.random.seed(s)
    if s % 3 == 0:
        np.random.random(s % 5 + 1)
    if s % 2:
        np.random.normal()


def _snap_state(self):
    return digest()


def _state_unchanged(self, OLD):
    # record and return True: a raising contract would abort the execution it observes
    _EVENTS.append((type(self).__name__, getattr(self, 'random_state', None) is not None, OLD.g == digest()))
    return True


class ContractError(Exception):
    pass


def setup_worker(ctx):
    """Attach the icontract snapshot/postcondition to every sampler class, and an on-raise probe."""
    import copulas.bivariate.base as bb
    import copulas.multivariate.gaussian as gm
    import copulas.multivariate.vine as vm
    import copulas.univariate as cu
    owners = [cu.Univariate, cu.GaussianKDE, bb.Bivariate, gm.GaussianMultivariate, vm.VineCopula]
    import copulas.univariate.base as ub
    owners.append(ub.ScipyModel)
    for owner in owners:
        if 'sample' not in owner.__dict__ or getattr(owner.__dict__['sample'], '_vmon', False):
            continue
        real = owner.__dict__['sample']
        contracted = icontract.snapshot(_snap_state, name='g')(
            icontract.ensure(_state_unchanged, error=ContractError)(real))

        def make(contracted=contracted, owner=owner):
            def sample(self, *a, **k):
                before = digest()
                try:
                    return contracted(self, *a, **k)
                except ContractError:
                    raise
                except Exception:
                    _EVENTS.append((type(self).__name__ + ':raise', getattr(self, 'random_state', None) is not None,
                                    before == digest()))
                    raise
            sample._vmon = True
            return sample
        setattr(owner, 'sample', make())


def cases(seed, tier):
    rng = rng_for(seed, 'C15')
    out = [{'mode': 'repo-tests', 'tier': tier, 'seed': 0}]
    for r in range(40 if tier == 'quick' else 5000):
        k = int(rng.integers(2, 6))
        kinds = [str(x) for x in rng.choice(KINDS, size=k, replace=True)]
        if r % 4 == 0:
            kinds[0] = str(rng.choice(['v:center', 'v:direct', 'v:regular']))
        out.append({'mode': 'history', 'kinds': kinds, 'ops': int(rng.integers(10, 41)),
                    'seed_kinds': [str(rng.choice(['int', 'RandomState'])) for _ in kinds],
                    'seed': int(rng.integers(1 << 31))})
    for r in range(len(KINDS) * (2 if tier == 'quick' else 40)):
        out.append({'mode': 'unseeded', 'kind': KINDS[r % len(KINDS)], 'seed': int(rng.integers(1 << 31))})
    for r in range(6 if tier == 'quick' else 40):
        out.append({'mode': 'raises', 'seed': int(rng.integers(1 << 31))})
    for r in range(12 if tier == 'quick' else 80):
        out.append({'mode': 'datasets', 'size': int(rng.choice([1, 17, 1000])), 'ds_seed': 0 if r % 4 == 0 else int(rng.integers(1 << 20)),
                    'seed': int(rng.integers(1 << 31))})
    return out


def build(kind, rng):
    """A fitted model of the given sampler kind; returns (model, sampler(model, n) -> output)."""
    import pandas as pd
    from copulas.multivariate import GaussianMultivariate, VineCopula
    fam, name = kind.split(':')
    np.random.seed(int(rng.integers(1 << 30)))
    if fam == 'u':
        data = uni.make_data({'kind': str(rng.choice(['normal', 'skewed', 'beta', 'bimodal'])), 'n': 120,
                              'seed': int(rng.integers(1 << 30))})
        m = uni.klass(name)()
        m.fit(data)
        return m, lambda mod, n: mod.sample(n)
    if fam == 'b':
        tau = float(rng.uniform(0.1, 0.7))
        m = biv.make_model(name, float(arch.theta_from_tau(name, tau)))
        return m, lambda mod, n: mod.sample(n)
    if fam == 'g':
        t = mv.random_table_spec(rng, 'quick', d=3, n=150, allow_constant=True,
                                 marg_pool=['normal', 'gamma', 'beta', 'uniform', 'constant'])
        t['names'] = 'str'
        df, _ = mv.make_table(t)
        import copulas.univariate as cu
        m = GaussianMultivariate() if name == 'default' else GaussianMultivariate(distribution=cu.GaussianUnivariate if rng.random() < 0.5 else cu.BetaUnivariate)
        m.fit(df)
        if name == 'cond':
            k = 1 + int(rng.integers(max(1, df.shape[1] - 1)))          # one or several conditioned columns
            cond = {c: float(df[c].iloc[0]) for c in list(df.columns)[:k]}
            return m, lambda mod, n: mod.sample(n, conditions=dict(cond))
        return m, lambda mod, n: mod.sample(n)
    t = {'d': 3, 'n': 80, 'corr': 'gram', 'marginals': ['normal', 'gamma', 'beta'], 'names': 'str',
         'seed': int(rng.integers(1 << 30))}
    df, _ = mv.make_table(t)
    m = VineCopula(name)
    m.fit(df)
    return m, lambda mod, n: mod.sample(min(n, 2))


def _seed_obj(kind, s):
    return s if kind == 'int' else np.random.RandomState(s)


def _drain(ctx, where):
    global _EVENTS
    evs, _EVENTS = _EVENTS, []
    for cls, seeded, same in evs:
        if seeded:
            ctx.check(same, 'global-state-unchanged', 'C15:seeded-sample-changed-global-state' +
                      (':on-raise' if cls.endswith(':raise') else ''), lambda: dict(where, sampler=cls))
        else:
            ctx.note('unseeded sample calls observed')


def _as_bytes(x):
    if hasattr(x, 'to_numpy'):
        return pickle.dumps((list(getattr(x, 'columns', [])), np.asarray(x.to_numpy(), dtype=float).tobytes()))
    return np.asarray(x, dtype=float).tobytes()


def _history(spec, ctx):
    rng = rng_for(spec['seed'], 'hist')
    where = {'kinds': spec['kinds'], 'ops': spec['ops']}
    models, samplers_, seeds = [], [], []
    for kind in spec['kinds']:
        ok, res = ctx.call(build, kind, rng)
        if not ok:
            if kind.startswith('v:') and vines.is_refusal(res):
                ctx.note('vine fit refused')
                return
            ctx.violation('history.build', 'C15:build-%s-%s' % (kind, exc_mech(res)), dict(exc_detail(res), **where))
            return
        models.append(res[0])
        samplers_.append(res[1])
        seeds.append(int(rng.integers(1 << 30)))
    fresh = [copy.deepcopy(m) for m in models]
    # the history ----------------------------------------------------------------------------------------------
    ops = []
    for _ in range(spec['ops']):
        r = rng.random()
        if r < 0.7:
            ops.append(('sample', int(rng.integers(len(models))), int(rng.choice([1, 2, 5, 17]))))
        elif r < 0.9:
            ops.append(('global', int(rng.integers(1, 6))))
        else:
            ops.append(('reseed', int(rng.integers(len(models))), int(rng.integers(1 << 30))))
    G = int(rng.integers(1 << 30))

    def run(models_, only=None, do_models=True):
        seed_global(G)
        for i, m in enumerate(models_):
            if only is None or i == only:
                m.set_random_state(_seed_obj(spec['seed_kinds'][i], seeds[i]))
        outs = []
        for op in ops:
            if op[0] == 'global':
                # an odd number of normal draws leaves a value pending in the generator's Gaussian cache
                outs.append(('global', (np.random.normal(size=op[1]) if op[1] % 2 else np.random.random(op[1])).tobytes()))
            elif op[0] == 'sample':
                if do_models and (only is None or op[1] == only):
                    ok, o = ctx.call(samplers_[op[1]], models_[op[1]], op[2])
                    outs.append(('sample', op[1], _as_bytes(o) if ok else 'raises:' + type(o).__name__))
                else:
                    outs.append(None)
            else:
                if do_models and (only is None or op[1] == only):
                    models_[op[1]].set_random_state(_seed_obj(spec['seed_kinds'][op[1]], op[2]))
                outs.append(None)
        return outs
    A = run(models)
    _drain(ctx, where)
    raised = [o for o in A if o and o[0] == 'sample' and isinstance(o[2], str)]
    if raised:
        ctx.violation('history.sample', 'C15:sample-' + raised[0][2], dict(where, which=spec['kinds'][raised[0][1]]))
    for i in range(len(models)):
        B = run([copy.deepcopy(f) for f in fresh], only=i)
        mine_a = [o for o in A if o and o[0] == 'sample' and o[1] == i]
        mine_b = [o for o in B if o and o[0] == 'sample' and o[1] == i]
        if not mine_a:
            continue
        same = mine_a == mine_b
        ctx.check(same, 'history.replay-equal', 'C15:stream-not-a-function-of-seed-and-call-sequence',
                  lambda: dict(where, model=spec['kinds'][i], seed_kind=spec['seed_kinds'][i], calls=len(mine_a),
                               first_difference=next((k for k, (x, y) in enumerate(zip(mine_a, mine_b)) if x != y), None)))
        # successive calls advance the stream (two calls of the same size are not identical, unless degenerate)
        sized = {}
        for o, op in zip([o for o in A if o and o[0] == 'sample'], [op for op in ops if op[0] == 'sample']):
            if o[1] == i:
                sized.setdefault(op[2], []).append(o[2])
    _drain(ctx, where)
    # after this history, re-seeding restarts the stream exactly as on a copy that never sampled: what a model
    # draws depends on its fitted parameters, the seed and the calls made since seeding - not on earlier sampling
    for i, m in enumerate(models):
        s_new = int(rng.integers(1 << 30))
        twin = copy.deepcopy(fresh[i])
        m.set_random_state(_seed_obj(spec['seed_kinds'][i], s_new))
        twin.set_random_state(_seed_obj(spec['seed_kinds'][i], s_new))
        oka, xa = ctx.call(samplers_[i], m, 3)
        okb, xb = ctx.call(samplers_[i], twin, 3)
        ctx.check(oka == okb and (not oka or _as_bytes(xa) == _as_bytes(xb)), 'history.reseed-forgets-history',
                  'C15:stream-after-reseeding-depends-on-earlier-sampling',
                  lambda: dict(where, model=spec['kinds'][i], seed_kind=spec['seed_kinds'][i]))
    _drain(ctx, where)
    C = run([copy.deepcopy(f) for f in fresh], do_models=False)
    ga = [o for o in A if o and o[0] == 'global']
    gc = [o for o in C if o and o[0] == 'global']
    ctx.check(ga == gc, 'history.global-draws-unperturbed', 'C15:global-draws-perturbed-by-seeded-sampling',
              lambda: dict(where, draws=len(ga)))
    ctx.nontriv('h|%d' % spec['seed'])
    ctx.sample({'kinds': spec['kinds'], 'ops': [list(o) for o in ops[:8]], 'seed_kinds': spec['seed_kinds']})


def _unseeded(spec, ctx):
    rng = rng_for(spec['seed'], 'unseeded')
    where = {'kind': spec['kind']}
    ok, res = ctx.call(build, spec['kind'], rng)
    if not ok:
        ctx.note('build refused')
        return
    m, sampler = res
    s = int(rng.integers(1 << 30))
    seed_global(s)
    ok1, a = ctx.call(sampler, m, 5)
    after = digest()
    seed_global(s)
    before = digest()
    ok2, b = ctx.call(sampler, m, 5)
    if not (ok1 and ok2):
        exc = a if not ok1 else b
        ctx.violation('unseeded.reproducible-through-global', 'C15:unseeded-sample-' + exc_mech(exc), dict(exc_detail(exc), **where))
        return
    ctx.check(_as_bytes(a) == _as_bytes(b), 'unseeded.reproducible-through-global', 'C15:unseeded-sample-not-driven-by-global-state', where)
    constant = hasattr(a, '__len__') and len(np.unique(np.asarray(a if not hasattr(a, 'to_numpy') else a.to_numpy(), dtype=float))) <= 3
    if not constant:
        ctx.check(after != before, 'unseeded.advances-global', 'C15:unseeded-sample-did-not-use-global-state', where)
    # a seed given at construction (before fit) and a later re-seed: the stream is a function of the LAST seed
    fam, name = spec['kind'].split(':')
    if fam == 'u':
        data = uni.make_data({'kind': 'skewed', 'n': 120, 'seed': int(rng.integers(1 << 30))})
        pair = []
        for cs in (1, 2):
            mm = uni.klass(name)(random_state=cs)
            np.random.seed(9)
            mm.fit(data.copy())
            mm.sample(3)
            pair.append(mm)
        for mm in pair:
            mm.set_random_state(s)
        a1, a2 = pair[0].sample(5), pair[1].sample(5)
        ctx.check(_as_bytes(a1) == _as_bytes(a2), 'seeded.reseed-overrides-constructor-seed',
                  'C15:stream-depends-on-constructor-seed-after-reseeding', where)
        pair[0].set_random_state(s)
        a3 = pair[0].sample(5)
        ctx.check(_as_bytes(a1) == _as_bytes(a3), 'seeded.reseed-restarts-stream', 'C15:reseeding-does-not-restart-stream', where)
    # and with a seed: two equal models, same seed -> same stream; successive calls differ
    m1, m2 = copy.deepcopy(m), copy.deepcopy(m)
    m1.set_random_state(s)
    m2.set_random_state(np.random.RandomState(s))
    x1, x2, y1 = sampler(m1, 5), sampler(m2, 5), sampler(m1, 5)
    m1.set_random_state(s)
    ctx.check(_as_bytes(sampler(m1, 5)) == _as_bytes(x1), 'seeded.reseed-restarts-stream', 'C15:reseeding-does-not-restart-stream', where)
    ctx.check(_as_bytes(x1) == _as_bytes(x2), 'seeded.equal-models-equal-streams', 'C15:equal-models-same-seed-differ', where)
    if not constant:
        ctx.check(_as_bytes(x1) != _as_bytes(y1), 'seeded.stream-advances', 'C15:successive-calls-do-not-advance', where)
    # one RandomState object given to two equal models: it is the caller's object - both models start from its
    # state, and sampling must not advance it
    shared = np.random.RandomState(s + 1)
    before = hashlib.sha1(shared.get_state()[1].tobytes() + repr(shared.get_state()[2:]).encode()).hexdigest()
    m3, m4 = copy.deepcopy(m), copy.deepcopy(m)
    m3.set_random_state(shared)
    m4.set_random_state(shared)
    z3 = sampler(m3, 5)
    z4 = sampler(m4, 5)
    after = hashlib.sha1(shared.get_state()[1].tobytes() + repr(shared.get_state()[2:]).encode()).hexdigest()
    ctx.check(before == after, 'seeded.caller-RandomState-untouched', 'C15:sampling-advances-the-callers-RandomState-object', where)
    ctx.check(_as_bytes(z3) == _as_bytes(z4), 'seeded.equal-models-equal-streams', 'C15:equal-models-same-seed-differ',
              dict(where, seed='shared RandomState object'))
    _drain(ctx, where)
    ctx.nontriv('u|%s|%d' % (spec['kind'], spec['seed']))


def _raises(spec, ctx):
    rng = rng_for(spec['seed'], 'raises')
    fam = str(rng.choice(biv.FAMILIES))
    m = biv.make_model(fam, 2.0, random_state=int(rng.integers(1 << 30)))
    m.tau = 5.0
    seed_global(rng.integers(1 << 30))
    before = digest()
    ok, e = ctx.call(m.sample, 3)
    ctx.check(not ok, 'raises.invalid-tau', 'C15:invalid-tau-sample-did-not-raise', {'family': fam})
    ctx.check(digest() == before, 'global-state-unchanged', 'C15:seeded-sample-changed-global-state:on-raise', {'family': fam})
    # a conditional sample that fails inside the seeded section
    ok, res = ctx.call(build, 'g:class', rng)
    if ok:
        g = res[0]
        g.set_random_state(int(rng.integers(1 << 30)))
        before = digest()
        okc, e = ctx.call(g.sample, 3, conditions={'no_such_column': 1.0})
        ctx.check(digest() == before, 'global-state-unchanged', 'C15:seeded-sample-changed-global-state:on-raise',
                  {'sampler': 'GaussianMultivariate', 'raised': not okc})
    # unfitted seeded models: sample() raises inside the seeded section of every sampler class
    import copulas.univariate as cu
    from copulas.multivariate import GaussianMultivariate, VineCopula
    makers = [lambda n=n: getattr(cu, n)(random_state=7) for n in uni.CLASSES] + \
             [lambda f=f: biv.cls(f)(random_state=7) for f in biv.FAMILIES] + \
             [lambda: GaussianMultivariate(random_state=7)] + [lambda v=v: VineCopula(v, random_state=7) for v in ('center', 'direct', 'regular')]
    for mk in makers:
        mdl = mk()
        seed_global(rng.integers(1 << 30))
        before = digest()
        okm, e = ctx.call(mdl.sample, 3)
        ctx.check(digest() == before, 'global-state-unchanged', 'C15:seeded-sample-changed-global-state:on-raise',
                  {'sampler': type(mdl).__name__, 'unfitted': True, 'raised': (not okm) and type(e).__name__})
    _drain(ctx, {'mode': 'raises'})
    # ... and after all those failures seeded sampling is still seeded: every sampler class replays its stream after
    # re-seeding and leaves the global state alone (a guard released only on normal return would show here)
    for kind in ('u:GaussianUnivariate', 'b:' + fam, 'g:class', 'v:direct'):
        okb, res = ctx.call(build, kind, rng)
        if not okb:
            continue
        mdl, sampler = res
        s0 = int(rng.integers(1 << 30))
        seed_global(rng.integers(1 << 30))
        before = digest()
        mdl.set_random_state(s0)
        ok1, a = ctx.call(sampler, mdl, 4)
        mdl.set_random_state(s0)
        ok2, b = ctx.call(sampler, mdl, 4)
        ctx.check(ok1 and ok2 and _as_bytes(a) == _as_bytes(b), 'seeded.after-failed-calls', 'C15:seeded-stream-not-replayed-after-a-failed-sample-call',
                  lambda: {'sampler': kind})
        ctx.check(digest() == before, 'global-state-unchanged', 'C15:seeded-sample-changed-global-state:after-failed-calls',
                  {'sampler': kind})
    _drain(ctx, {'mode': 'raises-then-sample'})
    ctx.nontriv('r|%d' % spec['seed'])


def _datasets(spec, ctx):
    from copulas import datasets
    fns = [n for n in dir(datasets) if n.startswith('sample_')]
    size, s = spec['size'], spec['ds_seed']
    for name in fns:
        fn = getattr(datasets, name)
        where = {'dataset': name, 'size': size, 'seed': s}
        seed_global(spec['seed'] + len(name))
        before = digest()
        ok, a = ctx.call(fn, size, s)
        if not ok:
            ctx.violation('datasets.deterministic', 'C15:dataset-' + exc_mech(a), dict(exc_detail(a), **where))
            continue
        ctx.check(digest() == before, 'datasets.global-state-unchanged', 'C15:dataset-changed-global-state', where)
        np.random.random(3)
        ok, b = ctx.call(fn, size=size, seed=s)
        ctx.check(ok and _as_bytes(a) == _as_bytes(b), 'datasets.deterministic', 'C15:dataset-not-deterministic-in-size-seed', where)
        ctx.check(len(a) == size, 'datasets.size', 'C15:dataset-wrong-number-of-rows', lambda: dict(where, rows=len(a)))
        ok, c = ctx.call(fn, size=size, seed=s + 1)
        if ok and size > 1 and name != 'sample_univariate_degenerate':
            ctx.check(_as_bytes(a) != _as_bytes(c), 'datasets.seed-matters', 'C15:dataset-ignores-seed', where)
    ctx.nontriv('d|%d|%d' % (size, s))


def _repo_tests(spec, ctx):
    """The repository's own tests as a workload under the global-state contract.  Unit tests call methods on
    mocks (no real seed, patched generators): only real model objects holding a seed are judged."""
    from vmon import pytest_probe
    res = pytest_probe.run_repo_tests(spec['tier'], 'c15')
    if res is None:
        ctx.note('repository tests under the RNG contract: nothing observed (not judged)')
        return
    judged = 0
    for cls, seeded, same in res['rng_events']:
        if 'Mock' in cls or not seeded:
            continue
        judged += 1
        ctx.check(same, 'global-state-unchanged(repository tests)', 'C15:seeded-sample-changed-global-state' +
                  (':on-raise' if cls.endswith(':raise') else ''), lambda: dict(sampler=cls, driven_by='repository test suite'))
    ctx.note('repository tests under the RNG contract: seeded sample calls judged', judged)
    if judged:
        ctx.nontriv('repo-tests|%s' % spec['tier'])


def run_case(spec, ctx):
    global _EVENTS
    _EVENTS = []
    if spec['mode'] == 'repo-tests':
        return _repo_tests(spec, ctx)
    return {'history': _history, 'unseeded': _unseeded, 'raises': _raises, 'datasets': _datasets}[spec['mode']](spec, ctx)
