"""C10 - bivariate fit calibrates theta to the data's Kendall tau, or refuses with ValueError."""

import numpy as np

from vmon import biv
from vmon.core import exc_detail, exc_mech, rng_for
from vmon.refs import arch, rank, samplers

PROPERTY = 'C10'
RULE = ('one case per generated (n,2) dataset, fitted by Clayton, Frank and Gumbel: n in '
        '{2,3,4,6,50,500(,2000)}; data classes: Gaussian-copula pairs at a target tau in (-1,1), '
        'family samples, independent, monotone, anti-monotone, tau exactly 0, heavy ties (1 decimal), '
        'constant column, one entry just outside [0,1], row-permuted copy; oracle: tau == O(n^2) '
        'tau-b, theta == reference calibration (Frank: |tau_ref(theta)-tau| <= 5e-3), admissible '
        'theta, refusal classes raise ValueError and nothing else; non-trivial = at least one '
        'family fitted and was judged; distinct by dataset spec')
DECIDING = {'fit.tau-is-tau-b': 100, 'fit.theta-calibrated': 100, 'fit.refuses': 30}
ASSUMPTIONS = ['Frank calibration tolerance 5e-3 in tau (the repository inverts numerically)',
               'tau-b computed from its definition']

KINDS = ['gauss', 'family', 'independent', 'monotone', 'antimonotone', 'tau0', 'ties', 'constant',
         'outside', 'permuted', 'ranks', 'binary']
# how the same numbers reach the library: a fresh array, a read-only one, a read-only F-ordered one (what
# DataFrame.to_numpy() returns) - and, for the two-valued kind, integer or boolean dtype
FLAVOURS = ['plain', 'plain', 'readonly', 'fortran-readonly']


def frank_tol(tau):
    """Accuracy of the library's numerical tau -> theta inversion (least squares on the Debye-function residual),
    measured on the pinned tree over 2 800 random tau: the residual |tau(theta_fit) - tau| follows c / tau**2 with
    c <= 6e-9 for |tau| >= 0.01 (<= 2.4e-8 below), saturates at 3.8e-3 for |tau| -> 0 and is <= 3.8e-7 for
    0.9 <= |tau| <= 0.99.  The tolerance is that envelope with a factor of about 5 (2 at the saturation plateau)."""
    t = abs(tau)
    if t >= 0.9:
        return 2e-5
    return min(8e-3, 3e-8 / max(t, 1e-12) ** 2)


def cases(seed, tier):
    rng = rng_for(seed, 'C10')
    reps = 14 if tier == 'quick' else 2500
    sizes = [2, 3, 4, 6, 50, 500] if tier == 'quick' else [2, 3, 4, 6, 50, 500, 2000]
    out = []
    for r in range(reps):
        for kind in KINDS:
            n = int(rng.choice(sizes))
            if kind in ('gauss', 'family', 'ties', 'permuted') and n < 6 and rng.random() < 0.7:
                n = int(rng.choice([50, 500]))
            tau = float(rng.choice([rng.uniform(-0.95, 0.95), rng.uniform(-0.05, 0.05),
                                    np.sign(rng.uniform(-1, 1)) * rng.uniform(0.9, 0.999)]))
            out.append({'kind': kind, 'n': n, 'tau': tau, 'fam': str(rng.choice(biv.FAMILIES)),
                        'seed': int(rng.integers(1 << 31)), 'flavour': str(rng.choice(FLAVOURS))})
    return out


def dataset(spec):
    rng = rng_for(spec['seed'])
    n, kind, tau = spec['n'], spec['kind'], spec['tau']
    if kind in ('gauss', 'ties', 'permuted', 'constant', 'outside', 'ranks', 'binary'):
        X = samplers.gaussian(float(np.sin(np.pi * tau / 2)), n, rng)
    elif kind == 'family':
        fam = spec['fam']
        t = abs(tau) if fam != 'frank' else tau
        t = min(max(t, 0.02), 0.9) * (np.sign(t) if fam == 'frank' and t != 0 else 1)
        th = float(arch.theta_from_tau(fam, t))
        X = samplers.SAMPLERS[fam](th, n, rng)
    elif kind == 'independent':
        X = rng.random((n, 2))
    elif kind == 'monotone':
        u = rng.random(n)
        X = np.column_stack([u, u ** 2])
    elif kind == 'antimonotone':
        u = rng.random(n)
        X = np.column_stack([u, 1 - u])
    elif kind == 'tau0':
        # Kendall tau exactly 0: as many concordant as discordant pairs (needs n(n-1)/2 even);
        # found by rejection over random permutations, with random (tie-free) margins
        m = int(rng.choice([4, 5, 8, 9, 12, 13]))
        from vmon.refs import rank as _rank
        for _ in range(20000):
            perm = rng.permutation(m)
            if _rank.tau_b(np.arange(m), perm) == 0:
                break
        else:
            perm = np.array([1, 3, 0, 2])
            m = 4
        u = np.sort(rng.random(m))
        v = np.sort(rng.random(m))[perm]
        X = np.column_stack([u, v])[rng.permutation(m)]
    if kind == 'ties':
        X = np.round(X, 1)
    if kind == 'constant':
        X[:, int(rng.integers(2))] = float(rng.choice([0.0, 0.5, 1.0, rng.random()]))
    if kind == 'outside':
        X[int(rng.integers(n)), int(rng.integers(2))] = float(rng.choice([1 + 1e-9, -1e-9, 1.5, -3.0]))
    if kind == 'ranks':
        # rank / n pseudo-observations: the largest value of each column is exactly 1.0
        from scipy.stats import rankdata
        X = np.column_stack([rankdata(X[:, 0]), rankdata(X[:, 1])]) / len(X)
    if kind == 'binary':
        X = (X > 0.5).astype([np.int64, np.bool_, np.uint8, np.float64][int(rng.integers(4))])
        return _flavoured(X, spec.get('flavour', 'plain'))
    X = np.clip(X, 0, 1) if kind not in ('outside',) else X
    return _flavoured(X, spec.get('flavour', 'plain'))


def _flavoured(X, flavour):
    if flavour == 'fortran-readonly':
        X = np.asfortranarray(X)
    if flavour != 'plain':
        X = X.copy(order='K')
        X.setflags(write=False)
    return X


def judge_fit(ctx, fam, X, where, probe_prefix='fit'):
    """Fit the real class on X and judge the outcome.  Returns the fitted model or None."""
    U, V = X[:, 0], X[:, 1]
    model = biv.cls(fam)()
    if int(1e6 * abs(float(U[0]))) % 2:
        # an instance with a past: fitted on other data (and possibly refused) before
        prev = samplers.gaussian(0.55 if fam != 'frank' else -0.4, 60, rng_for(len(X), fam))
        ctx.call(model.fit, prev)
    ok, exc = ctx.call(model.fit, X.copy())
    tb = rank.tau_b(U, V)
    outside = (X < 0).any() or (X > 1).any()
    constant = len(np.unique(U)) == 1 or len(np.unique(V)) == 1
    must_refuse = outside or constant or (fam in ('clayton', 'gumbel') and tb < 0)
    if not ok:
        if not isinstance(exc, ValueError):
            ctx.violation(probe_prefix + '.refuses', 'C10:%s-%s' % (fam, exc_mech(exc)),
                          dict(exc_detail(exc), **where))
            return None
        if must_refuse:
            ctx.ok(probe_prefix + '.refuses')
            # the refusal is a function of the data, not of the instance's history: the same object must
            # refuse the same data again
            ok2, exc2 = ctx.call(model.fit, X.copy())
            ctx.check(not ok2 and isinstance(exc2, ValueError), probe_prefix + '.refuses-again',
                      'C10:%s-second-fit-on-refused-data-accepted' % fam,
                      lambda: dict(where, tau_b=tb, theta=model.theta, second=repr(exc2)[:80]))
            return None
        # a ValueError outside the refusal classes: only tau = +/-1 (no finite theta) and
        # Clayton at tau = 0 (theta = 0 is not a Clayton copula) have no admissible theta
        no_theta = (abs(tb) == 1 and fam in ('gumbel', 'frank')) or (tb == 0 and fam in ('clayton', 'frank'))
        ctx.check(no_theta, probe_prefix + '.refuses', 'C10:%s-refused-fittable-data' % fam,
                  lambda: dict(where, tau_b=tb, msg=str(exc)[:200]))
        return None
    if must_refuse:
        why = 'outside' if outside else ('constant' if constant else 'negative-tau')
        ctx.violation(probe_prefix + '.refuses', 'C10:%s-accepted-%s' % (fam, why),
                      dict(where, tau_b=tb, theta=model.theta, tau=model.tau))
        return None
    tau, theta = model.tau, model.theta
    ctx.check(tau is not None and np.isfinite(tau) and abs(tau - tb) <= 1e-12, probe_prefix + '.tau-is-tau-b',
              'C10:%s-tau-not-tau-b' % fam, lambda: dict(where, tau=tau, tau_b=tb))
    # admissible theta ------------------------------------------------------------------------
    if fam == 'clayton':
        adm = theta is not None and theta > 0
    elif fam == 'gumbel':
        adm = theta is not None and theta >= 1
    else:
        adm = theta is not None and theta != 0 and not np.isnan(theta)
    if not ctx.check(adm, probe_prefix + '.theta-admissible', 'C10:%s-inadmissible-theta-accepted' % fam,
                     lambda: dict(where, theta=theta, tau_b=tb)):
        return None
    # calibration ---------------------------------------------------------------------------------
    if abs(tb) == 1:
        ctx.note('tau = +/-1: calibration has no finite solution (not judged)')
    elif fam in ('clayton', 'gumbel'):
        ref = float(arch.theta_from_tau(fam, tb))
        ctx.check(abs(theta - ref) <= 1e-12 * max(1.0, abs(ref)), probe_prefix + '.theta-calibrated',
                  'C10:%s-theta-miscalibrated' % fam, lambda: dict(where, theta=theta, ref=ref, tau_b=tb))
    elif abs(tb) > 0.99:
        # theta saturates at the float-exponent bound (709.78, tau = 0.9944): no representable
        # theta calibrates these; the 5e-3 tolerance would sit exactly on that edge
        ctx.note('Frank |tau| > 0.99: theta saturates at the exponent bound (not judged)')
    else:
        tref = float(arch.Arch('frank', theta).tau()) if np.isfinite(theta) else float(np.sign(theta))
        ctx.check(abs(tref - tb) <= frank_tol(tb), probe_prefix + '.theta-calibrated', 'C10:frank-theta-miscalibrated',
                  lambda: dict(where, theta=theta, tau_of_theta=tref, tau_b=tb))
        ctx.maxstat('Frank |tau(theta) - tau_b|', abs(tref - tb), dict(where, tau_b=tb, theta=theta))
    return model


def run_case(spec, ctx):
    X = dataset(spec)
    where = {'kind': spec['kind'], 'n': int(len(X))}
    fitted = 0
    for fam in biv.FAMILIES:
        w = dict(where, family=fam)
        m = judge_fit(ctx, fam, X, w)
        if m is not None:
            fitted += 1
            if spec['kind'] == 'permuted':
                rng = rng_for(spec['seed'], 'perm')
                m2 = biv.cls(fam)()
                ok, exc = ctx.call(m2.fit, X[rng.permutation(len(X))].copy())
                ctx.check(ok and abs(m2.tau - m.tau) <= 1e-12 and
                          (m2.theta == m.theta or
                           abs(m2.theta - m.theta) <= 1e-9 * max(1, abs(m.theta))),
                          'fit.row-order-invariant', 'C10:%s-row-order-dependence' % fam,
                          lambda: dict(w, a=[m.tau, m.theta], b=[getattr(m2, 'tau', None), getattr(m2, 'theta', None)]))
            # a sample whose tau differs in the 5th decimal only (two neighbouring values of one column swapped) is
            # calibrated to ITS tau: nothing may be shared between fits of nearly equal data
            if spec['kind'] in ('gauss', 'family', 'independent', 'permuted') and len(X) >= 20:
                X2 = np.array(X, dtype=float, order='C')
                order = np.argsort(X2[:, 1], kind='stable')
                a, b = order[len(X2) // 2], order[len(X2) // 2 + 1]
                X2[a, 1], X2[b, 1] = X2[b, 1], X2[a, 1]
                judge_fit(ctx, fam, X2, dict(w, twin_of_previous_sample=True))
            # the fitted model must be usable (not "silently invalid"); judged only inside the
            # range the library supports numerically (|tau| <= 0.8, property C06): beyond it the
            # Frank CDF overflows (theta > 36), which C10 does not speak about
            if abs(m.tau) <= 0.8:
                okq, res = ctx.call(m.cumulative_distribution, np.array([[0.3, 0.6]]))
                ctx.check(okq and np.isfinite(np.asarray(res, dtype=float)).all(), 'fit.model-usable',
                          'C10:%s-fitted-model-unusable' % fam,
                          lambda: dict(w, theta=m.theta, tau=m.tau, err=repr(res)[:200]))
            else:
                ctx.note('fitted |tau| > 0.8: usability not judged')
    if fitted or spec['kind'] in ('constant', 'outside'):
        ctx.nontriv('%s|%d|%d' % (spec['kind'], spec['n'], spec['seed']))
    ctx.sample({'kind': spec['kind'], 'n': int(len(X)), 'rows': X[:3].tolist()})
