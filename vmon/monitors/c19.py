"""C19 - model lifecycle: fit is a pure function of its inputs; misuse fails loudly."""

import copy

import numpy as np

from vmon import biv, fingerprint as fpr, interpose, mv, uni, vines
from vmon.core import exc_detail, exc_mech, rng_for
from vmon.refs import arch, samplers

PROPERTY = 'C19'
RULE = ('history cases: for every model class (9 univariate classes x option sets, 3 bivariate families, '
        'Gaussian multivariate x configurations, 3 vine types) a random history fit(D1)..fit(Dk) fit(X), '
        'k in 0..3, Di from {constant, narrow, wide, shifted, different size}, is compared with a fresh '
        'model\'s fit(X) (to_dict, behaviour fingerprint, seeded sample stream; global RNG set equal before '
        'the compared fits), and two fresh models with each other; poison cases: a vine is fitted and '
        'queried under two different np.empty sentinels and every observable is compared; misuse cases: '
        'every query on an unfitted model of every class must raise NotFittedError, invalid training '
        'tables (empty, object dtype, NaN) must raise ValueError and leave the model unfitted; '
        'get_instance cases: dotted name / class / unfitted instance / fitted instance prototypes x '
        'classes with options; non-trivial = the comparison / contract ran; distinct by case spec')
DECIDING = {'history.refit-equals-fresh-fit': 100, 'history.two-fresh-fits-equal': 100, 'poison.observable-independent': 20,
            'unfitted.raises-NotFittedError': 120, 'invalid-data.raises-ValueError': 20, 'get_instance.contract': 60}
ASSUMPTIONS = ['two different sentinels in np.empty buffers reveal every data flow from an uninitialised buffer '
               'allocated by tree.py / vine.py to an observable',
               'fingerprints are finite probe sets; bit-equality is required']

UNI_QUERIES = ('probability_density', 'log_probability_density', 'cumulative_distribution', 'percent_point',
               'pdf', 'cdf', 'ppf', 'sample', 'to_dict')
BIV_QUERIES = ('probability_density', 'log_probability_density', 'cumulative_distribution', 'partial_derivative',
               'percent_point', 'pdf', 'cdf', 'ppf', 'sample', 'generator')
GM_QUERIES = ('probability_density', 'log_probability_density', 'cumulative_distribution', 'pdf', 'cdf', 'sample',
              'to_dict')


def cases(seed, tier):
    rng = rng_for(seed, 'C19')
    out = []
    mspecs = uni.model_specs(rng, tier)
    for ms in mspecs:
        # the iteratively fitted family (an optimiser with a starting point) gets more histories
        iterative = ms['cls'] == 'TruncatedGaussian'
        for r in range((8 if iterative else 3) if tier == 'quick' else 200):
            out.append({'mode': 'history', 'kind': 'univariate', 'model': ms, 'k': int(rng.integers(1 if iterative else 0, 4)),
                        'seed': int(rng.integers(1 << 31))})
    for fam in biv.FAMILIES:
        for r in range(3 if tier == 'quick' else 200):
            out.append({'mode': 'history', 'kind': 'bivariate', 'family': fam, 'k': int(rng.integers(1, 4)),
                        'seed': int(rng.integers(1 << 31))})
    for r in range(10 if tier == 'quick' else 1000):
        out.append({'mode': 'history', 'kind': 'gaussian', 'config': mv.CONFIGS[r % 5], 'k': int(rng.integers(1, 3)),
                    'seed': int(rng.integers(1 << 31))})
    for r in range(9 if tier == 'quick' else 700):
        out.append({'mode': 'history', 'kind': 'vine', 'vine_type': ['center', 'direct', 'regular'][r % 3],
                    'k': 1, 'd': int(rng.integers(2, 5)), 'seed': int(rng.integers(1 << 31))})
    for r in range(24 if tier == 'quick' else 2500):
        out.append({'mode': 'poison', 'vine_type': ['center', 'direct', 'regular'][r % 3], 'd': int(rng.integers(2, 7)),
                    'truncated': int(rng.choice([1, 2, 3, 10])), 'seed': int(rng.integers(1 << 31))})
    out.append({'mode': 'unfitted'})
    for r in range(6 if tier == 'quick' else 40):
        out.append({'mode': 'invalid', 'seed': int(rng.integers(1 << 31))})
    for r in range(4 if tier == 'quick' else 30):
        out.append({'mode': 'get_instance', 'seed': int(rng.integers(1 << 31))})
    return out


def _hist_data(kind, rng, X):
    """Previous-fit datasets of different shapes."""
    n = len(X)
    if kind == 'constant':
        return np.full(int(rng.choice([5, n])), float(rng.choice([2.5, -1.0, 0.0])))
    if kind == 'narrow':
        return np.mean(X) + 1e-3 * np.std(X) * rng.standard_normal(n)
    if kind == 'wide':
        return np.mean(X) + 50 * np.std(X) * rng.standard_normal(n)
    if kind == 'shifted':
        return X + 100 * (np.std(X) or 1.0)
    return rng.normal(size=int(rng.choice([7, 3 * n])))


def _compare(ctx, where, a_name, fa, da, b_name, fb, db, probe, mech):
    same_d, at_d = fpr.deep_equal(da, db)
    same_f, at_f = fpr.deep_equal(fa, fb)
    ctx.check(same_d and same_f, probe, mech,
              lambda: dict(where, compared=[a_name, b_name], to_dict_differs_at=at_d if not same_d else None,
                           behaviour_differs_at=at_f if not same_f else None))
    return same_d and same_f


def _history_univariate(spec, ctx):
    ms = spec['model']
    rng = rng_for(spec['seed'], 'hist')
    X = uni.make_data({'kind': str(rng.choice(['normal', 'skewed', 'beta', 'bimodal', 'uniform'])), 'n': int(rng.choice([40, 200])),
                       'seed': int(rng.integers(1 << 30))})
    kinds = [str(rng.choice(['constant', 'narrow', 'wide', 'shifted', 'size'])) for _ in range(spec['k'])]
    where = {'kind': 'univariate', 'model': ms['cls'], 'kwargs': ms.get('kwargs', {}), 'history': kinds}
    G = int(rng.integers(1 << 30))

    # a fit that draws nothing (no KDE resample, no selection sub-sample) does not depend on the global generator:
    # the second fresh fit then runs under another global state
    kw = ms.get('kwargs', {})
    draws = bool(kw.get('sample_size')) or (kw.get('selection_sample_size') not in (None, 'n') and kw['selection_sample_size'] < len(X)) \
        or any(isinstance(c, dict) and c.get('kwargs', {}).get('sample_size') for c in kw.get('candidates', []) or [])

    def fitted(history, g=G):
        m = uni.build(ms, X)
        for hk in history:
            np.random.seed(1)
            try:
                D = _hist_data(hk, rng_for(spec['seed'], hk), X)
                m.fit(D)
                fpr.univariate(m, D, with_samples=True)      # the model is USED between the fits
            except Exception:      # noqa: BLE001 - a refused earlier fit is part of the history
                pass
        np.random.seed(g)
        m.fit(X.copy())
        return m
    ok, ms_ = ctx.call(lambda: (fitted(kinds), fitted([]), fitted([], G if draws else G + 12345)))
    if not ok:
        if spec['k'] == 0 or True:
            # does a fresh fit work at all?  if not, the class refuses this data: nothing to compare
            okf, _ = ctx.call(fitted, [])
            if not okf:
                ctx.note('fresh fit refused')
                return
        ctx.violation('history.refit-equals-fresh-fit', 'C19:refit-' + exc_mech(ms_), dict(exc_detail(ms_), **where))
        return
    used, fresh1, fresh2 = ms_
    fps = [fpr.univariate(m, X) for m in (used, fresh1, fresh2)]
    ds = [m.to_dict() for m in (used, fresh1, fresh2)]
    _compare(ctx, where, 'fresh', fps[1], ds[1], 'fresh', fps[2], ds[2], 'history.two-fresh-fits-equal',
             'C19:two-fresh-fits-differ')
    mech = 'C19:refit-differs-from-fresh-fit'
    _compare(ctx, where, 'refitted', fps[0], ds[0], 'fresh', fps[1], ds[1], 'history.refit-equals-fresh-fit', mech)
    ctx.nontriv('hu|%s|%r|%d' % (ms['cls'], ms.get('kwargs'), spec['seed']))
    ctx.sample({'kind': 'univariate', 'model': ms, 'history': kinds})


def _history_bivariate(spec, ctx):
    fam = spec['family']
    rng = rng_for(spec['seed'], 'hist')
    X = samplers.SAMPLERS[fam](float(arch.theta_from_tau(fam, rng.uniform(0.2, 0.7))), 200, rng)
    prev = [samplers.gaussian(float(rng.uniform(0.1, 0.9)), int(rng.choice([30, 300])), rng) for _ in range(spec['k'])]
    where = {'kind': 'bivariate', 'family': fam, 'k': spec['k']}

    def fitted(history):
        m = biv.cls(fam)()
        for D in history:
            try:
                m.fit(D)
                fpr.bivariate(m)
            except Exception:   # noqa: BLE001
                pass
        m.fit(X.copy())
        return m
    ok, ms_ = ctx.call(lambda: (fitted(prev), fitted([]), fitted([])))
    if not ok:
        ctx.violation('history.refit-equals-fresh-fit', 'C19:refit-' + exc_mech(ms_), dict(exc_detail(ms_), **where))
        return
    fps = [fpr.bivariate(m) for m in ms_]
    ds = [m.to_dict() for m in ms_]
    _compare(ctx, where, 'fresh', fps[1], ds[1], 'fresh', fps[2], ds[2], 'history.two-fresh-fits-equal', 'C19:two-fresh-fits-differ')
    _compare(ctx, where, 'refitted', fps[0], ds[0], 'fresh', fps[1], ds[1], 'history.refit-equals-fresh-fit',
             'C19:refit-differs-from-fresh-fit')
    ctx.nontriv('hb|%s|%d' % (fam, spec['seed']))


def _history_gaussian(spec, ctx):
    rng = rng_for(spec['seed'], 'hist')
    t = mv.random_table_spec(rng, 'quick', d=int(rng.integers(2, 5)), n=int(rng.choice([60, 200])))
    t['names'] = 'str'
    df, _ = mv.make_table(t)
    prev = []
    for i in range(spec['k']):
        t2 = dict(t, seed=int(rng.integers(1 << 30)), n=int(rng.choice([30, 150])),
                  marginals=[str(rng.choice(['normal', 'gamma', 'constant', 'uniform'])) for _ in range(t['d'])])
        if t2['marginals'].count('constant') == t['d']:
            t2['marginals'][0] = 'normal'
        prev.append(mv.make_table(t2)[0] * float(rng.choice([1.0, 100.0])))
    where = {'kind': 'gaussian', 'config': spec['config'], 'marginals': t['marginals'], 'k': spec['k']}
    G = int(rng.integers(1 << 30))
    cfg_seed = int(rng.integers(1 << 30))

    # the judged fit may get the same numbers as a bare array after labelled tables (labels then are 0..d-1)
    as_array = spec['config'] != 'dict' and spec['seed'] % 3 == 0
    where['final_fit_on_ndarray'] = as_array
    final = df.to_numpy().copy() if as_array else df
    if as_array:
        import pandas as pd
        df = pd.DataFrame(df.to_numpy())

    def fitted(history):
        m = mv.build_model(spec['config'], list(df.columns), rng_for(cfg_seed))
        for D in history:
            np.random.seed(1)
            try:
                m.fit(D)
                fpr.gaussian_mv(m, D, cdf_rows=1)
            except Exception:   # noqa: BLE001
                pass
        np.random.seed(G)
        m.fit(final.copy())
        return m
    ok, ms_ = ctx.call(lambda: (fitted(prev), fitted([]), fitted([])))
    if not ok:
        ctx.violation('history.refit-equals-fresh-fit', 'C19:refit-' + exc_mech(ms_), dict(exc_detail(ms_), **where))
        return
    fps = [fpr.gaussian_mv(m, df) for m in ms_]
    for f in fps:
        f.pop('cdf_noisy', None)
    ds = [m.to_dict() for m in ms_]
    _compare(ctx, where, 'fresh', fps[1], ds[1], 'fresh', fps[2], ds[2], 'history.two-fresh-fits-equal', 'C19:two-fresh-fits-differ')
    _compare(ctx, where, 'refitted', fps[0], ds[0], 'fresh', fps[1], ds[1], 'history.refit-equals-fresh-fit',
             'C19:refit-differs-from-fresh-fit')
    ctx.nontriv('hg|%s|%d' % (spec['config'], spec['seed']))


def _vine_observables(model, u, tree_mod, vine_mod, sentinel):
    with interpose.poison_empty(vines.SENTINELS[sentinel], tree_mod, vine_mod):
        obs = {'to_dict': fpr._safe(model.to_dict)}
        obs.update(fpr.vine(model, u, rows=2))
    return obs


def _history_vine(spec, ctx):
    import copulas.multivariate.tree as tree_mod
    import copulas.multivariate.vine as vine_mod
    rng = rng_for(spec['seed'], 'hist')
    d = spec['d']
    df = vines.make_table({'d': d, 'n': 80, 'pattern': 'gram', 'perm': list(range(d)), 'seed': spec['seed']})
    prev = vines.make_table({'d': d, 'n': 50, 'pattern': 'equi', 'perm': list(range(d)), 'seed': spec['seed'] + 1}) * 10
    where = {'kind': 'vine', 'vine_type': spec['vine_type'], 'd': d}

    def fitted(history):
        from copulas.multivariate import VineCopula
        m = VineCopula(spec['vine_type'])
        with interpose.poison_empty(111.0, tree_mod, vine_mod):
            for D in history:
                try:
                    m.fit(D)
                    fpr.vine(m, [np.full((1, d), 0.4)], rows=1)
                except Exception:   # noqa: BLE001
                    pass
            m.fit(df.copy())
        return m
    ok, ms_ = ctx.call(lambda: (fitted([prev]), fitted([]), fitted([])))
    if not ok:
        if vines.is_refusal(ms_):
            ctx.note('vine fit refused')
            return
        ctx.violation('history.refit-equals-fresh-fit', 'C19:refit-' + exc_mech(ms_), dict(exc_detail(ms_), **where))
        return
    u = [rng.uniform(0.05, 0.95, size=(1, d)) for _ in range(2)]
    obs = [_vine_observables(m, u, tree_mod, vine_mod, 'pos') for m in ms_]
    ds = [o.pop('to_dict') for o in obs]
    _compare(ctx, where, 'fresh', obs[1], ds[1], 'fresh', obs[2], ds[2], 'history.two-fresh-fits-equal', 'C19:two-fresh-fits-differ')
    _compare(ctx, where, 'refitted', obs[0], ds[0], 'fresh', obs[1], ds[1], 'history.refit-equals-fresh-fit',
             'C19:refit-differs-from-fresh-fit')
    ctx.nontriv('hv|%s|%d' % (spec['vine_type'], spec['seed']))


def _poison(spec, ctx):
    """MSan analogue: fit and query the same vine under two np.empty sentinels."""
    import copulas.multivariate.tree as tree_mod
    import copulas.multivariate.vine as vine_mod
    rng = rng_for(spec['seed'], 'poison')
    d = spec['d']
    df = vines.make_table({'d': d, 'n': 60, 'pattern': str(rng.choice(['gram', 'equi', 'negative', 'block'])),
                           'perm': [int(x) for x in rng.permutation(d)], 'seed': spec['seed']})
    where = {'vine_type': spec['vine_type'], 'd': d, 'truncated': spec['truncated']}
    u = [rng.uniform(0.05, 0.95, size=(1, d)) for _ in range(2)]
    obs, cells = [], 0
    for sent in ('pos', 'neg'):
        model, p = vines.fit(ctx, spec['vine_type'], df, spec['truncated'], sent, random_state=5)
        if p is None:
            if vines.is_refusal(model):
                ctx.note('vine fit refused')
                return
            ctx.violation('poison.fit', 'C19:vine-fit-' + exc_mech(model), dict(exc_detail(model), **where))
            return
        cells += p.cells
        obs.append(_vine_observables(model, u, tree_mod, vine_mod, sent))
    if cells == 0:
        ctx.inconclusive('poison.observable-independent', 'no-buffer-was-poisoned', where)
        return
    # which observable, if any, carries sentinel-dependent data?
    for key in ('to_dict', 'likelihood', 'samples'):
        same, at = fpr.deep_equal(obs[0][key], obs[1][key])
        mech = 'C19:uninitialised-memory-reaches-' + key
        if not same and key == 'to_dict':
            # name the field so that different leaks are different mechanisms
            field = [seg for seg in at.split('/') if seg and not seg.isdigit()]
            mech += ':' + (field[-1] if field else '?')
            structure = [[(e['L'], e['R'], sorted(e['D'])) for e in t['edges']] for t in obs[0]['to_dict'].get('trees', [])] != \
                        [[(e['L'], e['R'], sorted(e['D'])) for e in t['edges']] for t in obs[1]['to_dict'].get('trees', [])]
            if structure:
                mech = 'C19:uninitialised-memory-decides-vine-structure'
        ctx.check(same, 'poison.observable-independent', mech, lambda: dict(where, observable=key, differs_at=at))
    ctx.note('np.empty cells poisoned', cells)
    ctx.nontriv('p|%d' % spec['seed'])
    ctx.sample(dict(where, mode='poison', cells_poisoned=cells))


def _unfitted(spec, ctx):
    import copulas.univariate as cu
    from copulas.errors import NotFittedError
    from copulas.multivariate import GaussianMultivariate, VineCopula
    x = np.array([0.1, 0.5])
    X2 = np.array([[0.2, 0.3], [0.5, 0.6]])

    def judge(label, method, fn, *args):
        ok, res = ctx.call(fn, *args)
        ctx.check(not ok and isinstance(res, NotFittedError), 'unfitted.raises-NotFittedError',
                  'C19:unfitted-%s-%s' % (label.split('(')[0], ('returns' if ok else type(res).__name__)),
                  lambda: dict(model=label, method=method, got=repr(res)[:120]))
    for name in uni.CLASSES:
        for kwargs in ({},) if name != 'GaussianKDE' else ({}, {'bw_method': 0.3}):
            m = getattr(cu, name)(**kwargs)
            for q in UNI_QUERIES:
                args = () if q == 'to_dict' else ((3,) if q == 'sample' else (x,))
                judge('%s(%s)' % (name, kwargs), q, getattr(m, q), *args)
    for fam in biv.FAMILIES:
        m = biv.cls(fam)()
        for q in BIV_QUERIES:
            args = (3,) if q == 'sample' else ((x, x) if q in ('percent_point', 'ppf') else ((x,) if q == 'generator' else (X2,)))
            judge(fam, q, getattr(m, q), *args)
    import pandas as pd
    df = pd.DataFrame(X2, columns=['a', 'b'])
    m = GaussianMultivariate()
    for q in GM_QUERIES:
        args = () if q == 'to_dict' else ((2,) if q == 'sample' else (df,))
        judge('GaussianMultivariate', q, getattr(m, q), *args)
    judge('GaussianMultivariate', 'sample(conditions)', m.sample, 2, {'a': 0.1})
    for vt in ('center', 'direct', 'regular'):
        v = VineCopula(vt)
        judge('VineCopula(%s)' % vt, 'sample', v.sample, 2)
        judge('VineCopula(%s)' % vt, 'get_likelihood', v.get_likelihood, np.array([[0.2, 0.4]]))
    ctx.nontriv('unfitted')


def _invalid(spec, ctx):
    import pandas as pd
    from copulas.errors import NotFittedError
    from copulas.multivariate import GaussianMultivariate, VineCopula
    rng = rng_for(spec['seed'], 'invalid')
    good = pd.DataFrame(rng.normal(size=(30, 3)), columns=['a', 'b', 'c'])
    bads = {'empty': pd.DataFrame({'a': [], 'b': []}, dtype=float),
            'empty-ndarray': np.empty((0, 2)),
            'object': pd.DataFrame({'a': ['x', 'y', 'z'], 'b': [1.0, 2.0, 3.0]}),
            'nan': good.mask(rng.random(good.shape) < 0.1),
            'one-nan': good.copy()}
    bads['one-nan'].iloc[int(rng.integers(30)), int(rng.integers(3))] = np.nan
    bads['bool'] = pd.DataFrame(rng.random((30, 3)) < 0.5, columns=['a', 'b', 'c'])
    bads['complex'] = pd.DataFrame(rng.normal(size=(30, 2)) + 1j * rng.normal(size=(30, 2)), columns=['a', 'b'])
    bads['datetime'] = pd.DataFrame({'a': pd.date_range('2020-01-01', periods=30), 'b': rng.normal(size=30)})
    makers = {'GaussianMultivariate': lambda: GaussianMultivariate(),
              'VineCopula(center)': lambda: VineCopula('center'), 'VineCopula(regular)': lambda: VineCopula('regular')}
    for mname, make in makers.items():
        for bname, bad in bads.items():
            if mname.startswith('Vine') and bname == 'empty-ndarray':
                continue          # vines take DataFrames only
            m = make()
            ok, res = ctx.call(m.fit, bad)
            where = {'model': mname, 'data': bname}
            ctx.check(not ok and isinstance(res, ValueError), 'invalid-data.raises-ValueError',
                      'C19:invalid-data-%s' % ('accepted' if ok else type(res).__name__), lambda: dict(where, got=repr(res)[:120]))
            ctx.check(not getattr(m, 'fitted', False), 'invalid-data.stays-unfitted', 'C19:model-marked-fitted-after-rejected-data', where)
            okq, q = ctx.call(m.sample, 2)
            ctx.check(not okq and isinstance(q, NotFittedError), 'invalid-data.stays-unfitted',
                      'C19:unfitted-%s-%s' % (mname.split('(')[0], 'returns' if okq else type(q).__name__),
                      lambda: dict(where, got=repr(q)[:120], method='sample after rejected fit'))
    ctx.nontriv('invalid|%d' % spec['seed'])


def _get_instance(spec, ctx):
    import copulas.univariate as cu
    from copulas.multivariate import GaussianMultivariate, VineCopula
    from copulas.utils import get_instance
    rng = rng_for(spec['seed'], 'gi')
    data = rng.normal(size=60)
    protos = []
    for name in uni.CLASSES:
        protos.append(('name', 'copulas.univariate.' + name, getattr(cu, name), {}))
        protos.append(('class', getattr(cu, name), getattr(cu, name), {}))
    opt = [(cu.GaussianKDE, {'bw_method': 0.3, 'sample_size': 40}), (cu.GaussianKDE, {'weights': None, 'bw_method': 'silverman'}),
           (cu.TruncatedGaussian, {'minimum': -10.0, 'maximum': 12.0}),
           # options whose meaningful value is falsy (0, 0.0, empty): they are options all the same
           (cu.TruncatedGaussian, {'minimum': 0, 'maximum': 12.0}), (cu.TruncatedGaussian, {'minimum': -12.0, 'maximum': 0.0}),

           (cu.Univariate, {'parametric': cu.ParametricType.PARAMETRIC, 'bounded': cu.BoundedType.BOUNDED}),
           (cu.Univariate, {'candidates': [cu.GaussianUnivariate, cu.UniformUnivariate], 'selection_sample_size': 20}),
           (cu.BetaUnivariate, {'random_state': 3}), (GaussianMultivariate, {'distribution': cu.GammaUnivariate}),
           (GaussianMultivariate, {'distribution': {'a': cu.BetaUnivariate}}), (VineCopula, {'vine_type': 'direct'})]
    for cls, kw in opt:
        protos.append(('unfitted-instance', cls(**copy.deepcopy(kw)), cls, kw))
        if cls not in (GaussianMultivariate, VineCopula):
            m = cls(**copy.deepcopy(kw))
            np.random.seed(3)
            try:
                m.fit(data)
                protos.append(('fitted-instance', m, cls, kw))
            except Exception:   # noqa: BLE001
                pass
    # options given positionally
    for cls, args, expect in ((cu.TruncatedGaussian, (0.0, 10.0), {'min': 0.0, 'max': 10.0}),
                              (cu.GaussianKDE, (25, None, 0.3), {'_sample_size': 25, 'bw_method': 0.3}),
                              (cu.Univariate, ([cu.GaussianUnivariate, cu.UniformUnivariate],), {}),
                              (VineCopula, ('regular',), {'vine_type': 'regular'})):
        proto = cls(*copy.deepcopy(args))
        where = {'form': 'positional-instance', 'cls': cls.__name__, 'args': repr(args)[:100]}
        ok, inst = ctx.call(get_instance, proto)
        if not ok:
            ctx.violation('get_instance.contract', 'C19:get_instance-' + exc_mech(inst), dict(exc_detail(inst), **where))
            continue
        good = type(inst) is cls and inst is not proto and all(getattr(inst, k, '<missing>') == v for k, v in expect.items())
        if cls is cu.Univariate:
            good = good and [c.__name__ for c in inst.candidates] == ['GaussianUnivariate', 'UniformUnivariate'] \
                and inst.candidates is not proto.candidates
        ctx.check(good, 'get_instance.contract', 'C19:get_instance-not-a-fresh-equally-configured-object',
                  lambda: dict(where, got={k: repr(getattr(inst, k, '<missing>'))[:40] for k in expect}))
    attr = {'bw_method': 'bw_method', 'sample_size': '_sample_size', 'weights': 'weights', 'minimum': 'min', 'maximum': 'max',
            'selection_sample_size': 'selection_sample_size', 'distribution': 'distribution', 'vine_type': 'vine_type'}
    for form, proto, cls, kw in protos:
        where = {'form': form, 'cls': cls.__name__, 'kwargs': repr(kw)[:120]}
        ok, inst = ctx.call(get_instance, proto)
        if not ok:
            ctx.violation('get_instance.contract', 'C19:get_instance-' + exc_mech(inst), dict(exc_detail(inst), **where))
            continue
        good = type(inst) is cls and inst is not proto and not getattr(inst, 'fitted', False)
        detail = {}
        for k, v in kw.items():
            if k in attr:
                got = getattr(inst, attr[k], '<missing>')
                same = (got is v) if v is None else (got == v)
                if not same:
                    good = False
                    detail[k] = repr(got)[:60]
                if isinstance(v, (dict, list)) and got is getattr(proto, attr[k], None) and not isinstance(proto, (str, type)):
                    good = False
                    detail[k + ' shared with prototype'] = True
        if 'candidates' in kw:
            if [getattr(c, '__name__', c) for c in inst.candidates] != [c.__name__ for c in kw['candidates']]:
                good = False
                detail['candidates'] = repr(inst.candidates)[:80]
        if 'parametric' in kw:
            names = sorted(c.__name__ for c in inst.candidates)
            want = sorted(c.__name__ for c in cls(**kw).candidates)
            if names != want:
                good = False
                detail['candidates'] = names
        if form == 'fitted-instance':
            okq, q = ctx.call(inst.cumulative_distribution, np.array([0.0]))
            from copulas.errors import NotFittedError
            if okq or not isinstance(q, NotFittedError):
                good = False
                detail['query on new instance'] = repr(q)[:60]
        ctx.check(good, 'get_instance.contract', 'C19:get_instance-not-a-fresh-equally-configured-object',
                  lambda: dict(where, got=type(inst).__name__, is_proto=inst is proto, fitted=getattr(inst, 'fitted', None), **detail))
    ctx.nontriv('gi|%d' % spec['seed'])


def run_case(spec, ctx):
    mode = spec['mode']
    if mode == 'history':
        return {'univariate': _history_univariate, 'bivariate': _history_bivariate, 'gaussian': _history_gaussian,
                'vine': _history_vine}[spec['kind']](spec, ctx)
    return {'poison': _poison, 'unfitted': _unfitted, 'invalid': _invalid, 'get_instance': _get_instance}[mode](spec, ctx)
