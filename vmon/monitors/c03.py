"""C03 - every fitted univariate obeys the laws of a distribution function."""

import numpy as np

from vmon import uni
from vmon.core import exc_detail, exc_mech, rng_for

PROPERTY = 'C03'
RULE = ('cases = constructor-option sets of the 9 model classes (KDE bandwidth rule/scalar, KDE '
        'sample_size, truncation bounds none/loose/tight, Univariate filters and candidate lists) x '
        'generated datasets (normal, skewed, heavy-tailed, bimodal, exactly 5 distinct values, integer '
        'ties, scale 1e-6 / 1e6, offset 1e6, uniform, beta; n in {5,50,300,5000}) plus constant samples; '
        'each fitted model is probed on data quantiles, far points, +/-inf, ulp neighbours and midpoints; '
        'non-trivial = fit succeeded on non-constant data and the law oracle ran (or constant laws ran); '
        'distinct by (model spec, dataset spec)')
DECIDING = {'cdf.monotone': 100, 'ppf.inverts-cdf': 500, 'pdf.integral': 200, 'logpdf.is-log': 100,
            'constant.cdf-is-step': 10}
ASSUMPTIONS = ['TOL_UNIV = 1e-6 on probabilities', 'Gauss-Legendre 8 vs 16 panels x 16 nodes; unconverged '
               'intervals are counted inconclusive', 'Galois inequalities with x +/- 4 ulp define "inverts the CDF"']


def cases(seed, tier):
    rng = rng_for(seed, 'C03')
    out = []
    mspecs = uni.model_specs(rng, tier)
    reps = 5 if tier == 'quick' else 700
    for ms in mspecs:
        kinds = list(uni.DATA_KINDS)
        for r in range(reps):
            kind = kinds[(r + int(rng.integers(len(kinds)))) % len(kinds)] if r >= len(kinds) else \
                str(rng.choice(kinds))
            n = int(rng.choice([5, 50, 300, 5000], p=[0.2, 0.3, 0.4, 0.1]))
            if ms['cls'] == 'Univariate' and n == 5000:
                n = 1000
            if kind in ('five', 'ties') and n < 8:
                n = 50
            out.append({'model': ms, 'data': {'kind': kind, 'n': n, 'seed': int(rng.integers(1 << 31))}})
    # every class on every data kind at least once per run (n = 300)
    for ms in mspecs[:7] + [{'cls': 'GaussianKDE'}, {'cls': 'Univariate'}]:
        for kind in uni.DATA_KINDS:
            if tier == 'quick' and rng.random() < 0.5:
                continue
            out.append({'model': ms, 'data': {'kind': kind, 'n': 300, 'seed': int(rng.integers(1 << 31))}})
    for ms in mspecs:
        for c in ([3.0, -2.5, 0.0] if tier == 'quick' else [3.0, 0.0, -2.5, 1e6, 1e-6, 7.0, -1e-9, 1e12]):
            out.append({'model': ms, 'constant': c, 'n': int(rng.choice([1, 5, 40]))})
    return out


def _containers(ctx, model, data, where, rng):
    """The laws speak about the i-th value of the argument: a pandas Series (what GaussianMultivariate hands to
    its marginals) with any index must give, position by position, what the bare array gives."""
    import pandas as pd
    q = np.array([0.03, 0.2, 0.41, 0.5, 0.77, 0.9, 0.99])
    pts = np.quantile(data, q) + 0.0
    lab = rng.permutation(len(q))
    for method, arg in (('cumulative_distribution', pts), ('probability_density', pts),
                        ('log_probability_density', pts), ('percent_point', q)):
        ok, base = ctx.call(getattr(model, method), arg.copy())
        if not ok:
            continue            # judged by the laws
        base = np.asarray(base, dtype=float)
        for name, idx in (('shuffled-int-index', lab), ('offset-index', np.arange(50, 50 + len(q))), ('str-index', ['r%d' % i for i in lab])):
            ok2, got = ctx.call(getattr(model, method), pd.Series(arg.copy(), index=idx))
            if not ok2:
                ctx.violation('query.container-invariance', 'C03:%s-of-series-%s' % (method, exc_mech(got)),
                              dict(exc_detail(got), index=name, **where))
                continue
            got = np.asarray(got, dtype=float)
            ctx.check(got.shape == base.shape and np.array_equal(got, base, equal_nan=True), 'query.container-invariance',
                      'C03:%s-depends-on-series-labels' % method, lambda: dict(where, index=name, got=got[:4], as_array=base[:4]))


def run_case(spec, ctx):
    from copulas.univariate import Univariate
    ms = spec['model']
    where = {'model': ms['cls'], 'kwargs': ms.get('kwargs', {})}
    if 'constant' in spec:
        c = spec['constant']
        data = np.full(spec['n'], c)
        model = uni.build(ms, data)
        ok, exc = ctx.call(model.fit, data)
        where['c'] = c
        if not ok:
            ctx.violation('constant.fit', 'C03:constant-fit-' + exc_mech(exc), dict(exc_detail(exc), **where))
            return
        uni.constant_laws(ctx, model, c, where)
        ok, d = ctx.call(model.to_dict)
        if ok:
            ok2, m2 = ctx.call(Univariate.from_dict, d)
            if ok2:
                uni.constant_laws(ctx, m2, c, where, tag='@roundtrip')
            else:
                ctx.violation('constant.roundtrip', 'C03:constant-from_dict-' + exc_mech(m2),
                              dict(exc_detail(m2), **where))
        else:
            ctx.violation('constant.roundtrip', 'C03:constant-to_dict-' + exc_mech(d), dict(exc_detail(d), **where))
        ctx.nontriv('const|%s|%r|%r' % (ms['cls'], ms.get('kwargs'), c))
        return
    data = uni.make_data(spec['data'])
    where.update(data=spec['data']['kind'], n=len(data))
    model = uni.build(ms, data)
    if spec['data']['seed'] % 3 == 0:
        # the object has a past: fitted on data of another scale and queried (lazily filled caches!)
        from vmon import fingerprint as fpr
        past = uni.make_data({'kind': 'normal', 'n': 60, 'seed': spec['data']['seed'] + 7}) * 50 + 1000
        np.random.seed(3)
        if ctx.call(model.fit, past)[0]:
            fpr.univariate(model, past)
            model.set_random_state(None)
        where['refitted'] = True
    np.random.seed(spec['data']['seed'] % (2 ** 31))     # KDE(sample_size) / selection subsampling draw here
    ok, exc = ctx.call(model.fit, data)
    if not ok:
        # the property speaks about fitted models; a refusing fit is counted, not judged here
        ctx.note('fit refused: %s %s' % (ms['cls'], type(exc).__name__))
        return
    if ms['cls'] == 'Univariate':
        where['selected'] = uni.selected_family(model)
    uni.laws(ctx, model, data, where)
    _containers(ctx, model, data, where, rng_for(spec['data']['seed'], 'containers'))
    ctx.nontriv('%s|%r|%s|%d|%d' % (ms['cls'], ms.get('kwargs'), spec['data']['kind'], len(data),
                                    spec['data']['seed']))
    ctx.sample({'model': ms, 'data': spec['data'], 'first_values': data[:3].tolist()})
