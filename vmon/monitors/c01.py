"""C01 - Gaussian-copula synthetic data keeps schema, marginals and dependence."""

import numpy as np
from scipy.special import ndtr

from vmon import interpose, mv, stats, uni
from vmon.core import exc_detail, exc_mech, rng_for
from vmon.monitors.c02 import check_correlation
from vmon.refs import rank

PROPERTY = 'C01'
RULE = ('one case per (table, configuration, sample size, seed): tables with 2..6 columns drawn from a '
        'known Gaussian copula (random Gram / equicorrelated +,- / near-singular / block / identity '
        'correlation; normal, uniform, beta, gamma, student-t, log-laplace, truncated normal, bimodal, '
        'integer-valued and constant marginals), n_train in {200,1000(,5000)}, five configuration forms, '
        'str/int/unsorted/mixed column names, DataFrame or ndarray input, n_sample in {1,2,17,1500..4000}; '
        'sample() is observed through an RNG recorder on copulas.multivariate.gaussian.np: the recorded '
        'multivariate_normal call must use mean 0 and the fitted correlation, and every output column must '
        'equal marginal.percent_point(Phi(draw)); then DKW bands per column, Hoeffding bands on pairwise '
        'Kendall tau, and recovery of the generating marginals/correlation for well-specified '
        'configurations; non-trivial = recorded draw found and all layers ran; distinct by case spec')
DECIDING = {'sample.schema': 40, 'sample.draw-uses-fitted-correlation': 40, 'sample.column-is-ppf-of-draw': 100,
            'sample.marginal-dkw': 60, 'sample.tau-band': 40}
ASSUMPTIONS = ['(2/pi) asin(rho) is Kendall tau of a Gaussian copula with continuous marginals',
               'per-comparison false-alarm probability 1e-13, <= 10^4 comparisons per run']


def cases(seed, tier):
    rng = rng_for(seed, 'C01')
    out = []
    reps = 48 if tier == 'quick' else 500
    for r in range(reps):
        t = mv.random_table_spec(rng, tier)
        cfg = mv.CONFIGS[r % 5]
        if cfg == 'default':
            t['n'] = min(t['n'], 1000 if tier == 'thorough' else 200)
            t['d'] = min(t['d'], 4)
            t['marginals'] = t['marginals'][:t['d']]
        small = r % 6 == 5
        out.append({'table': t, 'config': cfg, 'container': 'ndarray' if r % 7 == 3 else 'df',
                    'n_sample': int(rng.choice([1, 2, 17])) if small else (4000 if tier == 'quick' else int(rng.choice([4000, 12000]))),
                    'seed_kind': ['int', 'RandomState', 'none'][r % 3], 'seed': int(rng.integers(1 << 31)),
                    'recovery': False})
    # columns of large magnitude / tiny scale (timestamps, lengths in metres) under closed-form, kernel and
    # selected marginals: not constant columns, and quantile solvers must not run out of absolute tolerance
    for r in range(8 if tier == 'quick' else 60):
        t = mv.random_table_spec(rng, tier, d=2, n=200, allow_constant=False, marg_pool=['normal', 'gamma', 'uniform'])
        t['extras'] = [['timestamp'], ['tiny_values'], ['timestamp', 'tiny_values']][r % 3]
        out.append({'table': t, 'config': ['gaussian', 'kde', 'default', 'kde'][r % 4], 'container': 'df',
                    'n_sample': 1500, 'seed_kind': 'int', 'seed': int(rng.integers(1 << 31)), 'recovery': False})
    # id-like integer constants (beyond 2**53 a float64 round trip changes the value)
    for r in range(6 if tier == 'quick' else 40):
        t = mv.random_table_spec(rng, tier, d=int(rng.integers(2, 4)), n=200, marg_pool=['normal', 'gamma', 'integer'])
        t['extras'] = ['int_constant']
        out.append({'table': t, 'config': mv.CONFIGS[r % 5], 'container': 'df', 'n_sample': int(rng.choice([3, 1500])),
                    'seed_kind': 'int', 'seed': int(rng.integers(1 << 31)), 'recovery': False})
    # well-specified configurations for the recovery clause
    for r in range(12 if tier == 'quick' else 120):
        pool = ['normal', 'uniform', 'beta', 'gamma', 'student_t']
        t = mv.random_table_spec(rng, tier, d=int(rng.integers(2, 5)), n=int(rng.choice([1000, 5000])),
                                 allow_constant=False, marg_pool=pool)
        t['corr'] = str(rng.choice(['gram', 'equi_pos', 'block', 'identity']))
        out.append({'table': t, 'config': 'true_families', 'container': 'df', 'n_sample': 4000,
                    'seed_kind': 'int', 'seed': int(rng.integers(1 << 31)), 'recovery': True})
    return out


def _kde_column_reference(ctx, u, x, prob, where):
    """For a kernel-estimate marginal the quantile function is the library's own code: the sampled value x of a
    draw with probability p must satisfy F_ref(x) = p, F_ref being the explicit kernel sum over the stored data
    (minus the mass the library truncates below min - 5 std, finding F2) - 1e-8 in probability."""
    from vmon.refs import kde as kref
    inner = getattr(u, '_instance', None) or u
    if type(inner).__name__ != 'GaussianKDE' or getattr(inner, '_constant_value', None) is not None:
        return
    data = np.asarray(inner._params['dataset'], dtype=float).ravel()
    if len(data) < 2 or np.ptp(data) == 0 or getattr(inner, 'weights', None) is not None:
        return
    rows = np.flatnonzero((prob > 1e-6) & (prob < 1 - 1e-6) & np.isfinite(x))[:400]
    if not len(rows):
        return
    lower = data.min() - 5 * data.std()
    F = kref.kde_cdf(x[rows], data, inner.bw_method) - float(kref.kde_cdf(np.array([lower]), data, inner.bw_method)[0])
    err = np.abs(F - prob[rows])
    k = int(np.argmax(err))
    ctx.check(err[k] <= 1e-8, 'sample.kde-column-reference', 'C01:kde-column-value-not-the-quantile-of-its-draw',
              lambda: dict(where, value=x[rows][k], probability=prob[rows][k], reference_cdf=F[k]))
    ctx.maxstat('KDE column |F_ref(x) - p|', float(err[k]), where)


def _exactly(got, want):
    """Equality without a round trip through float64 when the training constant is an integer."""
    if isinstance(want, (int, np.integer)):
        g = got.item() if hasattr(got, 'item') else got
        return (isinstance(g, int) or float(g).is_integer()) and int(g) == int(want)
    return bool(got == want)


TRUE_CLASS = {'normal': 'GaussianUnivariate', 'uniform': 'UniformUnivariate', 'beta': 'BetaUnivariate',
              'gamma': 'GammaUnivariate', 'student_t': 'StudentTUnivariate'}


def run_case(spec, ctx):
    import copulas.multivariate.gaussian as gm
    import copulas.univariate as cu
    from copulas.multivariate import GaussianMultivariate
    t = spec['table']
    rng = rng_for(spec['seed'], 'cfg')
    df, info = mv.make_table(t)
    where = {'config': spec['config'], 'corr': t['corr'], 'n_train': t['n'], 'd': df.shape[1],
             'marginals': t['marginals'], 'extras': t.get('extras', []), 'n_sample': spec['n_sample'], 'container': spec['container']}
    rs = {'int': int(rng.integers(1 << 30)), 'RandomState': np.random.RandomState(int(rng.integers(1 << 30))),
          'none': None}[spec['seed_kind']]
    if spec['config'] == 'true_families':
        dist = {c: getattr(cu, TRUE_CLASS[k]) for c, k in zip(df.columns, t['marginals'])}
        model = GaussianMultivariate(distribution=dist, random_state=rs)
    else:
        model = mv.build_model(spec['config'], list(df.columns), rng, random_state=rs)
    if spec['seed'] % 3 == 0 and spec['container'] != 'ndarray':
        mv.give_past(model, df, rng)
        model.set_random_state(rs)
        where['refitted'] = True
    train = df.to_numpy() if spec['container'] == 'ndarray' else df.copy()
    cols = list(range(df.shape[1])) if spec['container'] == 'ndarray' else list(df.columns)
    np.random.seed(spec['seed'] % (2 ** 31))
    ok, exc = ctx.call(model.fit, train)
    if not ok:
        ctx.violation('sample.fit', 'C01:fit-' + exc_mech(exc), dict(exc_detail(exc), **where))
        return
    okp, det = mv.prototype_options_kept(model)
    ctx.check(okp, 'fit.prototype-options', 'C01:instance-prototype-options-lost', lambda: dict(where, **(det or {})))
    dfc = df.copy()
    dfc.columns = cols
    check_correlation(ctx, model, dfc, where, prop='C01')
    n = spec['n_sample']
    with interpose.record_random(gm) as log:
        ok, out = ctx.call(model.sample, n)
    if not ok:
        ctx.violation('sample.call', 'C01:sample-' + exc_mech(out), dict(exc_detail(out), **where))
        return
    # schema -------------------------------------------------------------------------------------------
    good = hasattr(out, 'columns') and list(out.columns) == cols and len(out) == n
    if not ctx.check(good, 'sample.schema', 'C01:sample-schema',
                     lambda: dict(where, columns=[repr(c) for c in getattr(out, 'columns', [])], rows=len(out),
                                  want=[repr(c) for c in cols])):
        return
    V = out.to_numpy(dtype=float)
    ctx.check(not np.isnan(V).any(), 'sample.no-missing', 'C01:sample-has-missing-values',
              lambda: dict(where, nan_per_column=np.isnan(V).sum(axis=0)))
    if np.isinf(V).any():
        ctx.note('samples containing +/-inf (KDE quantile of an extreme probability)')
    const = [dfc[c].nunique() == 1 for c in cols]
    for j, c in enumerate(cols):
        if const[j]:
            want, got = dfc[c].iloc[0], out[c].to_numpy()
            same = (V[:, j] == float(want)).all() and _exactly(got[0], want) and _exactly(got[-1], want)
            ctx.check(same, 'sample.constant-column', 'C01:constant-column-not-reproduced',
                      lambda: dict(where, column=repr(c), want=repr(want), got=[repr(g) for g in got[:3]]))
    # deterministic layer ----------------------------------------------------------------------------------
    draws = [e for e in log if e['fn'] == 'multivariate_normal']
    recorded = False
    if len(draws) == 1:
        e = draws[0]
        mean = np.asarray(e['args'][0], dtype=float)
        cov = np.asarray(e['args'][1], dtype=float)
        size = e['kwargs'].get('size', e['args'][2] if len(e['args']) > 2 else None)
        Z = np.asarray(e['result'], dtype=float)
        ctx.check(mean.shape == (len(cols),) and (mean == 0).all() and cov.shape == (len(cols),) * 2 and
                  np.array_equal(cov, np.asarray(model.correlation, dtype=float)) and size == n,
                  'sample.draw-uses-fitted-correlation', 'C01:normal-draw-not-from-fitted-correlation',
                  lambda: dict(where, mean=mean, size=size, cov_equal=bool(cov.shape == (len(cols),) * 2 and
                               np.array_equal(cov, np.asarray(model.correlation, dtype=float)))))
        if Z.shape == (n, len(cols)):
            recorded = True
            for j, (c, u) in enumerate(zip(cols, model.univariates)):
                if const[j]:
                    continue
                okp, want = ctx.call(uni.reference_percent_point(u), ndtr(Z[:, j]))
                if not okp:
                    continue
                want = np.asarray(want, dtype=float)
                same = np.isclose(V[:, j], want, rtol=1e-12, atol=0) | (V[:, j] == want) | (np.isnan(V[:, j]) & np.isnan(want))
                k = int(np.argmin(same))
                ctx.check(same.all(), 'sample.column-is-ppf-of-draw', 'C01:column-not-ppf-of-normal-draw',
                          lambda: dict(where, column=repr(c), marginal=type(u).__name__, row=k, got=V[k, j], want=want[k]))
                _kde_column_reference(ctx, u, V[:, j], ndtr(Z[:, j]), dict(where, column=repr(c)))
    else:
        ctx.inconclusive('sample.draw-uses-fitted-correlation', 'recorded-draws-not-one-mvn-call',
                         dict(where, calls=[x['fn'] for x in log][:6]))
    if n < 1000:
        ctx.nontriv('small|%d|%s' % (spec['seed'], spec['config']))
        return
    # statistical layer ------------------------------------------------------------------------------------
    eps = stats.dkw_eps(n)
    cont = []
    for j, (c, u) in enumerate(zip(cols, model.univariates)):
        if const[j]:
            cont.append(False)
            continue
        col = V[:, j]
        fin = np.isfinite(col)
        d = stats.ks_distance_fp(col[fin], u.cdf, max(float(np.abs(dfc[c]).max()), uni._param_magnitude(u))) + (1 - fin.mean())
        mech = 'C01:sampled-column-not-distributed-as-fitted-marginal'
        latent_var = float(np.asarray(model.correlation, dtype=float)[j, j])
        if d > eps and latent_var < 0.5:
            # the fitted marginal sends every training value of this non-constant column to the same clipped
            # probability (a diverged scipy MLE): the column then gets latent variance ~0 like a constant one and
            # every sampled value is the marginal's median (known finding F31)
            mech = 'C01:sampled-column-degenerate:zero-latent-variance-after-diverged-marginal-fit'
        ctx.check(d <= eps, 'sample.marginal-dkw', mech,
                  lambda: dict(where, column=repr(c), marginal=type(u).__name__, ks=d, band=eps, latent_variance=latent_var,
                               params={k: float(v) for k, v in (getattr(getattr(u, '_instance', None) or u, '_params', {}) or {}).items()
                                       if isinstance(v, (int, float, np.floating))}))
        ctx.maxstat('sample-vs-fitted-marginal KS / band', d / eps, where)
        cont.append(len(np.unique(col)) > 0.9 * n)
    m = min(n, 3000)
    te = stats.tau_eps(m)
    A = np.asarray(model.correlation, dtype=float)
    for i in range(len(cols)):
        for j in range(i + 1, len(cols)):
            if not (cont[i] and cont[j]):
                ctx.note('pairs skipped (constant or tied column)')
                continue
            tau_model = 2 / np.pi * np.arcsin(np.clip(A[i, j], -1, 1))
            ts = rank.tau_b(V[:m, i], V[:m, j])
            ctx.check(abs(ts - tau_model) <= te, 'sample.tau-band', 'C01:sampled-rank-dependence-off',
                      lambda: dict(where, pair=[repr(cols[i]), repr(cols[j])], tau_sample=ts, tau_model=tau_model, band=te))
            ctx.maxstat('|tau_sample - tau(rho_fit)| / band', abs(ts - tau_model) / te, where)
    # recovery of the generating copula (well-specified configurations only) --------------------------------------
    if spec['recovery']:
        nt = t['n']
        e_tr = stats.dkw_eps(nt)
        grid = np.linspace(0.02, 0.98, 25)
        for j, (dist, u) in enumerate(zip(info['dists'], model.univariates)):
            xt = dist.ppf(grid)
            sup = float(np.max(np.abs(np.asarray(u.cdf(xt), dtype=float) - grid)))
            ok_fam = type(u).__name__ == TRUE_CLASS[t['marginals'][j]]
            # scipy-MLE families are only required to recover on >= 80% of datasets (C04): tally them
            if t['marginals'][j] in ('normal', 'uniform'):
                ctx.check(ok_fam and sup <= e_tr, 'recover.marginal', 'C01:generating-marginal-not-recovered',
                          lambda: dict(where, column=j, sup=sup, band=e_tr, fitted=type(u).__name__))
            else:
                ctx.tally('recover.mle-marginal', bool(sup <= e_tr))
        tb = stats.tau_eps(nt)
        S = info['S']
        for i in range(len(cols)):
            for j in range(i + 1, len(cols)):
                a = 2 / np.pi * np.arcsin(np.clip(A[i, j], -1, 1))
                b = 2 / np.pi * np.arcsin(np.clip(S[i, j], -1, 1))
                ctx.check(abs(a - b) <= tb, 'recover.correlation', 'C01:generating-correlation-not-recovered',
                          lambda: dict(where, pair=[i, j], rho_fit=A[i, j], rho_true=S[i, j], band_tau=tb))
                ctx.maxstat('|tau(rho_fit) - tau(rho_true)| / band', abs(a - b) / tb, where)
    if recorded:
        ctx.nontriv('%d|%s|%s' % (spec['seed'], spec['config'], spec['container']))
    ctx.sample({'config': spec['config'], 'table': t, 'n_sample': n,
                'marginals_fitted': [type(u).__name__ for u in model.univariates]})


def finalize(agg, ctx):
    t = agg['tallies'].get('recover.mle-marginal')
    if t and t[1] >= 60:
        ctx.check(not stats.binom_rejects_at_least(t[0], t[1], 0.8, stats.DELTA_RUN / 2), 'recover.mle-marginals-80-percent',
                  'C01:mle-marginals-recovered-on-significantly-less-than-80-percent',
                  {'successes': t[0], 'trials': t[1]})
