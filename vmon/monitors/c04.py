"""C04 - marginal fitting recovers the generating law; KDE is the kernel estimate."""

import numpy as np
from scipy import stats as st

from vmon import stats
from vmon.core import TOL_UNIV, exc_detail, exc_mech, rng_for
from vmon.refs import kde as kref

PROPERTY = 'C04'
RULE = ('recovery cases: one dataset per case drawn (harness Generator) from a member of the family: '
        'loc in +/-[1,1e3], scale in [1e-2,1e3] log-uniform, beta a,b in [0.5,10], gamma a in [0.5,20], '
        't df in [2,30], log-laplace c in [1,10], truncation windows a<b in [-3,3] (b-a>=0.5, containing '
        'the parent mean or pure tail), n in {200,500,1000,5000}; oracle sup|F_fit-F_true| on the true '
        'quantile grid and KS(sample, F_fit) against the DKW band; required for every dataset (Gaussian, '
        'Uniform, TruncatedGaussian) or for >= 80% by an exact binomial test (beta, gamma, student-t, '
        'log-laplace); exactness, support and explicit-sum KDE cases; non-trivial = fit succeeded and '
        'the band comparison (or KDE reference comparison) ran; distinct by dataset spec')
DECIDING = {'recovery.band': 200, 'exact.closed-form': 40, 'support.bounds': 40, 'kde.reference': 1000}
ASSUMPTIONS = ['scipy.stats frozen distributions generate the ground-truth samples and F_true',
               'DKW-Massart band at 1e-13 per dataset', 'binomial rule for the 80% clause at 1e-9/4']

EVERY = ('gaussian', 'uniform', 'truncnorm')
MLE = ('beta', 'gamma', 'student_t', 'log_laplace')
CLS = {'gaussian': 'GaussianUnivariate', 'uniform': 'UniformUnivariate', 'truncnorm': 'TruncatedGaussian',
       'beta': 'BetaUnivariate', 'gamma': 'GammaUnivariate', 'student_t': 'StudentTUnivariate',
       'log_laplace': 'LogLaplace'}


def cases(seed, tier):
    rng = rng_for(seed, 'C04')
    out = []
    n_every = 40 if tier == 'quick' else 3000
    n_mle = 200 if tier == 'quick' else 5000
    for fam in EVERY:
        for i in range(n_every):
            out.append({'mode': 'recovery', 'family': fam, 'n': int(rng.choice([200, 500, 1000, 5000])),
                        'seed': int(rng.integers(1 << 31))})
    for fam in ('gaussian', 'uniform'):
        for i in range(16 if tier == 'quick' else 200):
            out.append({'mode': 'recovery', 'family': fam, 'n': int(rng.choice([200, 1000])), 'offset': True,
                        'seed': int(rng.integers(1 << 31))})
    for fam in MLE:
        for i in range(n_mle):
            out.append({'mode': 'recovery', 'family': fam, 'n': int(rng.choice([200, 500, 1000, 5000], p=[.4, .3, .2, .1])),
                        'seed': int(rng.integers(1 << 31))})
    for i in range(24 if tier == 'quick' else 3000):
        out.append({'mode': 'kde', 'seed': int(rng.integers(1 << 31)),
                    'bw': [None, 'scott', 'silverman', 0.05, 0.3, 1.0][i % 6],
                    'weighted': bool(i % 3 == 1), 'sample_size': [None, None, 10, 200][i % 4] if i % 3 != 1 else None,   # weights + sample_size: fit raises ValueError (weights keep length n)
                    'n': int(rng.choice([5, 50, 300, 2000]))})
    for i in range(48 if tier == 'quick' else 2400):
        out.append({'mode': 'support', 'family': ['beta', 'uniform', 'truncnorm', 'truncnorm'][i % 4],
                    'seed': int(rng.integers(1 << 31)), 'n': int(rng.choice([200, 1000]))})
    return out


def truth(spec):
    """Frozen scipy distribution and a sample from it."""
    rng = rng_for(spec['seed'], 'truth')
    fam = spec['family']
    loc = float(rng.choice([-1, 1]) * 10 ** rng.uniform(0, 3))
    scale = float(10 ** rng.uniform(-2, 3))
    if spec.get('offset'):
        # closed-form families must stay exact for data of large magnitude and small relative spread
        # (timestamps, lengths in metres): |loc| up to 1e9 with scale/|loc| down to 1e-9, or tiny absolute values
        if rng.random() < 0.7:
            loc = float(rng.choice([-1, 1]) * 10 ** rng.uniform(4, 9))
            scale = float(abs(loc) * 10 ** rng.uniform(-9, -5))
        else:
            loc = float(10 ** rng.uniform(-9, -7))
            scale = float(loc * 10 ** rng.uniform(-2, 0))
    info = {'loc': loc, 'scale': scale}
    if fam == 'gaussian':
        d = st.norm(loc, scale)
    elif fam == 'uniform':
        d = st.uniform(loc, scale)
    elif fam == 'beta':
        a, b = rng.uniform(0.5, 10, 2)
        info.update(a=float(a), b=float(b))
        d = st.beta(a, b, loc, scale)
    elif fam == 'gamma':
        a = float(rng.uniform(0.5, 20))
        info.update(a=a)
        d = st.gamma(a, loc, scale)
    elif fam == 'student_t':
        df = float(rng.uniform(2, 30))
        info.update(df=df)
        d = st.t(df, loc, scale)
    elif fam == 'log_laplace':
        c = float(rng.uniform(1, 10))
        info.update(c=c)
        d = st.loglaplace(c, loc, scale)
    elif fam == 'truncnorm':
        while True:
            a, b = np.sort(rng.uniform(-3, 3, 2))
            if b - a >= 0.5:
                break
        if spec.get('contains_mean', rng.random() < 0.7) and not (a < 0 < b):
            a, b = -abs(a) - 0.25, abs(b) + 0.25
        info.update(a=float(a), b=float(b), window=[loc + a * scale, loc + b * scale],
                    contains_mean=bool(a < 0 < b), range=float((b - a) * scale))
        d = st.truncnorm(a, b, loc, scale)
    x = d.rvs(size=spec['n'], random_state=rng)
    return d, np.asarray(x, dtype=float), info


def _recovery(spec, ctx):
    import copulas.univariate as cu
    fam = spec['family']
    d, x, info = truth(spec)
    n = len(x)
    where = {'family': fam, 'n': n, 'truth': info}
    model = getattr(cu, CLS[fam])()
    ok, exc = ctx.call(model.fit, x.copy())
    if not ok:
        if fam in EVERY:
            ctx.violation('recovery.fit', 'C04:%s-fit-%s' % (fam, exc_mech(exc)), dict(exc_detail(exc), **where))
        else:
            ctx.tally('recovery|' + fam, False)
            ctx.note('%s fit raised %s (counts as not recovered)' % (fam, type(exc).__name__))
        return
    eps = stats.dkw_eps(n)
    qgrid = np.concatenate([[1e-4, 1e-3, 0.01], np.linspace(0.02, 0.98, 49), [0.99, 1 - 1e-3, 1 - 1e-4]])
    xt = d.ppf(qgrid)
    okc, Ff = ctx.call(model.cumulative_distribution, xt)
    if not okc:
        ctx.violation('recovery.cdf', 'C04:%s-cdf-%s' % (fam, exc_mech(Ff)), dict(exc_detail(Ff), **where))
        return
    Ff = np.asarray(Ff, dtype=float)
    sup_true = float(np.nanmax(np.abs(Ff - qgrid))) if not np.isnan(Ff).all() else float('inf')
    if np.isnan(Ff).any():
        sup_true = float('inf')
    ks = stats.ks_distance(x, model.cumulative_distribution)
    ratio = max(sup_true, ks) / eps
    inside = ratio <= 1
    ctx.maxstat('%s max(sup|F_fit-F_true|, KS)/band' % fam, ratio if np.isfinite(ratio) else 1e9, where)
    p = dict(model._params)
    if fam in EVERY:
        mech = 'C04:%s-recovery-outside-band' % fam
        det = dict(where, sup_true=sup_true, ks=ks, band=eps, params={k: float(v) for k, v in p.items()})
        if fam == 'truncnorm' and not inside:
            lo, hi = float(p['loc'] + p['a'] * p['scale']), float(p['loc'] + p['b'] * p['scale'])   # the fitted support
            rng_ = hi - lo
            # SLSQP stops at, or within a fraction of a percent of, an active bound
            scale_on_bound = p['scale'] >= 0.99 * rng_ ** 2
            loc_on_bound = min(abs(p['loc'] - lo), abs(p['loc'] - hi)) <= 0.01 * rng_
            # when the generating parameter itself lies beyond the optimiser's bound, the constrained optimum is on
            # the bound and SLSQP may stop a little further inside it (seen: 98.6 % of the scale bound)
            t = info if isinstance(info, dict) else {}
            if t.get('scale', 0) > rng_ ** 2 and p['scale'] >= 0.9 * rng_ ** 2:
                scale_on_bound = True
            if not (lo <= t.get('loc', lo) <= hi):
                near = lo if t['loc'] < lo else hi
                loc_on_bound = loc_on_bound or abs(p['loc'] - near) <= 0.05 * rng_
            det.update(scale_on_bound=bool(scale_on_bound), loc_on_bound=bool(loc_on_bound), fit_range=rng_)
            if scale_on_bound:
                mech = 'C04:truncnorm-misfit-scale-on-optimiser-bound'
            elif loc_on_bound:
                mech = 'C04:truncnorm-misfit-loc-on-optimiser-bound'
        ctx.check(inside, 'recovery.band', mech, det)
    else:
        ctx.ok('recovery.band')
        ctx.tally('recovery|' + fam, bool(inside))
    # closed-form estimators are exact
    if fam == 'gaussian':
        ctx.check(abs(p['loc'] - np.mean(x)) <= 1e-12 * max(1, abs(np.mean(x))) and
                  abs(p['scale'] - np.std(x)) <= 1e-12 * np.std(x) + 4 * np.spacing(abs(np.mean(x))), 'exact.closed-form', 'C04:gaussian-not-mean-std',
                  lambda: dict(where, params=p, mean=float(np.mean(x)), std=float(np.std(x))))
    if fam == 'uniform':
        ctx.check(p['loc'] == np.min(x) and abs(p['scale'] - (np.max(x) - np.min(x))) <= 1e-12 * abs(np.max(x) - np.min(x)),
                  'exact.closed-form', 'C04:uniform-not-min-range',
                  lambda: dict(where, params=p, min=float(np.min(x)), range=float(np.max(x) - np.min(x))))
    ctx.nontriv('%s|%d|%d' % (fam, n, spec['seed']))
    if fam in ('gaussian', 'beta'):
        ctx.sample({'family': fam, 'n': n, 'truth': info, 'sup_true': sup_true, 'ks': ks, 'band': eps})


def _support(spec, ctx):
    import copulas.univariate as cu
    fam = spec['family']
    rng = rng_for(spec['seed'], 'support')
    d, x, info = truth(dict(spec, contains_mean=True))
    where = {'family': fam, 'n': len(x), 'truth': info}
    if fam == 'truncnorm':
        lo = float(x.min() - rng.choice([0.0, 0.1, 2.0]) * x.std())
        hi = float(x.max() + rng.choice([0.0, 0.1, 2.0]) * x.std())
        zb = int(rng.integers(3))
        if zb == 1:        # a user bound of exactly 0 (falsy but not None)
            x = x - x.min() + float(rng.uniform(0.05, 1.0)) * x.std()
            lo, hi = 0.0, float(x.max() + 0.5 * x.std())
        elif zb == 2:
            x = x - x.max() - float(rng.uniform(0.05, 1.0)) * x.std()
            lo, hi = float(x.min() - 0.5 * x.std()), 0.0
        # the bounds reach the fitted object by keyword or by position, directly or through the selecting wrapper
        # (which fits a copy of the prototype made by get_instance)
        via = ['keyword', 'positional', 'wrapper-positional', 'wrapper-keyword'][spec['seed'] % 4]
        where['via'] = via
        rs = int(rng.integers(1 << 30))
        if via == 'keyword':
            model = cu.TruncatedGaussian(minimum=lo, maximum=hi, random_state=rs)
        elif via == 'positional':
            model = cu.TruncatedGaussian(lo, hi, rs)
        elif via == 'wrapper-positional':
            model = cu.Univariate(candidates=[cu.TruncatedGaussian(lo, hi)], random_state=rs)
        else:
            model = cu.Univariate(candidates=[cu.TruncatedGaussian(minimum=lo, maximum=hi)], random_state=rs)
    else:
        model = getattr(cu, CLS[fam])(random_state=int(rng.integers(1 << 30)))
    ok, exc = ctx.call(model.fit, x.copy())
    if not ok:
        if fam != 'beta':
            ctx.violation('support.fit', 'C04:%s-fit-%s' % (fam, exc_mech(exc)), dict(exc_detail(exc), **where))
        return
    if fam == 'truncnorm':
        a, b = lo, hi
    else:
        a, b = float(model._params['loc']), float(model._params['loc'] + model._params['scale'])
    span = b - a
    if not span > 1e-9 * max(abs(a), abs(b), 1e-300):
        # scipy's MLE diverged to a support that is a single point at floating-point resolution
        ctx.note('fitted support narrower than 1e-9 of its location (inconclusive)')
        return
    # "no mass outside the fitted support": judged a few ulps outside the end points, because a beta with shape
    # parameter < 1 has a CDF so steep at its end that one ulp of (x - loc) / scale is worth 1e-6 of probability
    u4 = 4 * np.spacing(max(abs(a), abs(b)))
    F = np.asarray(model.cumulative_distribution(np.array([a - span, a - u4, b + u4, b + span])), dtype=float)
    ctx.check(abs(F[0]) <= TOL_UNIV and abs(F[1]) <= TOL_UNIV and abs(F[2] - 1) <= TOL_UNIV and abs(F[3] - 1) <= TOL_UNIV,
              'support.bounds', 'C04:%s-mass-outside-support' % fam, lambda: dict(where, bounds=[a, b], cdf=F))
    pout = np.asarray(model.probability_density(np.array([a - span, a - 1e-3 * span, b + 1e-3 * span, b + span])), dtype=float)
    ctx.check((pout == 0).all(), 'support.pdf-zero-outside', 'C04:%s-density-outside-support' % fam,
              lambda: dict(where, bounds=[a, b], pdf=pout))
    oks, s = ctx.call(model.sample, 2000)
    if oks:
        s = np.asarray(s, dtype=float)
        tol = 4 * np.spacing(max(abs(a), abs(b)))
        ctx.check(len(s) == 2000 and s.min() >= a - tol and s.max() <= b + tol, 'support.samples-inside',
                  'C04:%s-sample-outside-support' % fam, lambda: dict(where, bounds=[a, b], min=s.min(), max=s.max()))
    else:
        ctx.violation('support.samples-inside', 'C04:%s-sample-%s' % (fam, exc_mech(s)), dict(exc_detail(s), **where))
    if fam == 'truncnorm':
        inner = getattr(model, '_instance', None) or model
        ctx.check(type(inner).__name__ == 'TruncatedGaussian' and inner.min == lo and inner.max == hi, 'support.user-bounds-kept',
                  'C04:truncnorm-user-bounds-changed',
                  lambda: dict(where, given=[lo, hi], now=[getattr(inner, 'min', None), getattr(inner, 'max', None)], fitted=type(inner).__name__))
        okq, ends = ctx.call(model.percent_point, np.array([0.0, 1.0]))
        if okq:
            ends = np.asarray(ends, dtype=float)
            ctx.check(abs(ends[0] - lo) <= 1e-9 * span and abs(ends[1] - hi) <= 1e-9 * span, 'support.is-user-bounds',
                      'C04:truncnorm-fitted-support-is-not-the-user-bounds', lambda: dict(where, given=[lo, hi], fitted_support=ends))
    ctx.nontriv('support|%s|%d' % (fam, spec['seed']))


def _resample_uses_options(ctx, x, w, spec, stored, where):
    """RNG replay of the resample: the global state was seeded just before fit, so the stored dataset can be
    compared with scipy's resample of the kernel estimate built with the requested options and, if it
    differs, with the resamples obtained when an option is dropped.  Only an exact match with a
    dropped-option replay is a violation; a resample that matches no replay is noted, not judged."""
    from scipy.stats import gaussian_kde

    def replay(bw, weights):
        np.random.seed(spec['seed'] % (2 ** 31))
        try:
            return np.asarray(gaussian_kde(x, bw_method=bw, weights=weights).resample(spec['sample_size']), dtype=float).ravel()
        except Exception:  # noqa: BLE001
            return None
    want = replay(spec['bw'], w)
    if want is not None and want.shape == stored.shape and np.allclose(stored, want, rtol=1e-12, atol=0):
        ctx.ok('kde.resample-replay')
        return
    alts = []
    if spec['bw'] not in (None, 'scott'):
        alts.append(('bandwidth-rule', replay(None, w)))
    if w is not None:
        alts.append(('weights', replay(spec['bw'], None)))
        if spec['bw'] not in (None, 'scott'):
            alts.append(('bandwidth-rule-and-weights', replay(None, None)))
    for name, alt in alts:
        if alt is not None and alt.shape == stored.shape and np.allclose(stored, alt, rtol=1e-12, atol=0):
            ctx.violation('kde.resample-replay', 'C04:kde-resample-ignores-' + name, dict(where, dropped=name))
            return
    ctx.note('kde resample not reproduced by any replay (not judged)')


def _kde(spec, ctx):
    from copulas.univariate import GaussianKDE
    rng = rng_for(spec['seed'], 'kde')
    n = spec['n']
    kind = int(rng.integers(3))
    x = [rng.normal(3, 2, n), np.concatenate([rng.normal(-4, 1, n // 2), rng.normal(5, 0.5, n - n // 2)]),
         rng.gamma(2.0, 3.0, n)][kind]
    w = rng.random(n) + 0.05 if spec['weighted'] else None
    where = {'n': n, 'bw': spec['bw'], 'weighted': spec['weighted'], 'sample_size': spec['sample_size']}
    via = 'keyword' if w is not None else ['keyword', 'positional', 'wrapper-positional'][spec['seed'] % 3]
    where['via'] = via
    if via == 'keyword':
        model = GaussianKDE(bw_method=spec['bw'], weights=w, sample_size=spec['sample_size'])
    elif via == 'positional':
        model = GaussianKDE(spec['sample_size'], None, spec['bw'])
    else:
        # the selecting wrapper fits a copy of the prototype (made by get_instance) and delegates to it
        from copulas.univariate import Univariate
        model = Univariate(candidates=[GaussianKDE(spec['sample_size'], bw_method=spec['bw'])])
    if spec['seed'] % 3 == 0 and not spec['weighted']:
        # the object was fitted before on data of another size and used
        past = rng.normal(size=int(rng.choice([7, 3 * n + 11])))
        np.random.seed(5)
        if ctx.call(model.fit, past)[0]:
            ctx.call(model.probability_density, past[:3])
        where['refitted'] = True
    np.random.seed(spec['seed'] % (2 ** 31))
    ok, exc = ctx.call(model.fit, x.copy())
    if not ok:
        ctx.violation('kde.fit', 'C04:kde-fit-' + exc_mech(exc), dict(exc_detail(exc), **where))
        return
    inner = getattr(model, '_instance', None) or model
    if not ctx.check(type(inner).__name__ == 'GaussianKDE', 'kde.fitted-class', 'C04:kde-wrapper-fitted-another-class',
                     lambda: dict(where, fitted=type(inner).__name__)):
        return
    stored = np.asarray(inner._params['dataset'], dtype=float).ravel()
    if spec['sample_size']:
        ctx.check(len(stored) == spec['sample_size'], 'kde.sample-size', 'C04:kde-stored-dataset-wrong-size',
                  lambda: dict(where, stored=len(stored)))
        base = stored
        _resample_uses_options(ctx, x, w, spec, stored, where)
    else:
        ctx.check(len(stored) == n and np.array_equal(np.sort(stored), np.sort(x)), 'kde.keeps-data',
                  'C04:kde-stored-dataset-not-training-data', lambda: dict(where, stored=len(stored)))
        base = x
    lo, hi = base.min(), base.max()
    pts = np.concatenate([np.linspace(lo - (hi - lo), hi + (hi - lo), 150), rng.choice(base, 50)])
    okp, p = ctx.call(model.probability_density, pts)
    if not okp:
        ctx.violation('kde.reference', 'C04:kde-pdf-' + exc_mech(p), dict(exc_detail(p), **where))
        return
    p = np.asarray(p, dtype=float)
    ref = kref.kde_pdf(pts, base, spec['bw'], w)
    err = np.abs(p - ref) / (1e-9 * np.abs(ref) + 1e-300)
    err = np.where(np.isnan(err), np.inf, err)
    k = int(np.argmax(err))
    ctx.check(err[k] <= 1, 'kde.reference', 'C04:kde-density-not-kernel-estimate',
              lambda: dict(where, at=pts[k], got=p[k], ref=ref[k]))
    ctx.ok('kde.reference', len(pts) - 1)
    ctx.maxstat('KDE pdf rel. error vs explicit sum', float(np.max(np.abs(p - ref) / (np.abs(ref) + 1e-300))), where)
    # the CDF is the kernel CDF of the same estimate (up to the documented truncated mass)
    okc, F = ctx.call(model.cumulative_distribution, pts)
    if okc:
        # the library's CDF is the kernel CDF minus the kernel mass m below min - 5 std (finding F2 judges m itself)
        lower = base.min() - 5 * base.std()
        Fr = kref.kde_cdf(pts, base, spec['bw'], w) - float(kref.kde_cdf(np.array([lower]), base, spec['bw'], w)[0])
        ctx.check(np.nanmax(np.abs(np.asarray(F, dtype=float) - Fr)) <= 1e-9, 'kde.cdf-reference', 'C04:kde-cdf-not-kernel-cdf',
                  lambda: dict(where, worst=float(np.nanmax(np.abs(np.asarray(F, dtype=float) - Fr)))))
    ctx.nontriv('kde|%r|%r|%r|%d' % (spec['bw'], spec['weighted'], spec['sample_size'], spec['seed']))
    ctx.sample(dict(where, mode='kde'))


def run_case(spec, ctx):
    if spec['mode'] == 'recovery':
        return _recovery(spec, ctx)
    if spec['mode'] == 'kde':
        return _kde(spec, ctx)
    return _support(spec, ctx)


def finalize(agg, ctx):
    cells = {k: v for k, v in agg['tallies'].items() if k.startswith('recovery|')}
    if not cells:
        return
    delta = stats.DELTA_RUN / 4 / 2
    for cell, (succ, trials) in sorted(cells.items()):
        lo, hi = stats.clopper_pearson(succ, trials)
        if stats.binom_max_rejected(trials, 0.8, delta) < 0:
            ctx.inconclusive('recovery.80-percent', 'too-few-datasets', {'cell': cell, 'trials': trials})
            continue
        ctx.check(not stats.binom_rejects_at_least(succ, trials, 0.8, delta), 'recovery.80-percent',
                  'C04:%s-recovered-on-significantly-less-than-80-percent' % cell.split('|')[1],
                  {'cell': cell, 'successes': succ, 'trials': trials, 'ci99': [lo, hi],
                   'max_rejected': stats.binom_max_rejected(trials, 0.8, delta)})
        ctx.maxstat('1 - recovered fraction (%s)' % cell.split('|')[1], 1 - succ / trials,
                    {'successes': succ, 'trials': trials, 'ci99': [lo, hi]})
