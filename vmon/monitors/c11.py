"""C11 - select_copula returns a calibrated candidate and recovers the true family."""

import numpy as np

from vmon import biv, stats
from vmon.core import exc_detail, exc_mech, rng_for
from vmon.monitors import c10
from vmon.monitors.c10 import frank_tol
from vmon.refs import arch, rank, samplers

PROPERTY = 'C11'
RULE = ('consistency cases: the C10 dataset classes (n in 2..500, all tau, ties, monotone, tau=0, '
        'refusal classes) passed to copulas.bivariate.select_copula and to the deprecated '
        'Bivariate.select_copula alias, twice on equal copies; recovery cells: family x tau in '
        '{0.3,0.5,0.7} (thorough: 0.3..0.7 step 0.1), n=3000 drawn by the harness\'s own samplers, '
        'N seeds per cell, judged by an exact one-sided binomial test of "fraction >= 0.7" at '
        '1e-9/(number of cells); non-trivial = select_copula returned and was judged; distinct by '
        'dataset spec')
DECIDING = {'select.returns-family': 100, 'select.calibrated': 100, 'select.deterministic': 100,
            'select.recovery-cell': 9}
ASSUMPTIONS = ['harness samplers (conditional inversion / Marshall-Olkin) validated against the mpmath CDF',
               'binomial rule: a cell is violated only when the exact test rejects fraction >= 0.7']

CELL_TAUS = {'quick': [0.3, 0.5, 0.7], 'thorough': [0.3, 0.4, 0.5, 0.6, 0.7]}
SEEDS = {'quick': 100, 'thorough': 1500}


def cases(seed, tier):
    rng = rng_for(seed, 'C11')
    out = []
    pool = c10.cases(seed + 7919, tier)
    if tier == 'quick':
        pool = pool + c10.cases(seed + 104729, tier) + c10.cases(seed + 1299709, tier)
    for spec in (pool if tier == 'quick' else pool[:4000]):
        out.append(dict(spec, mode='consistency'))
    # large samples (the selection must still be a function of ALL rows)
    for r in range(3 if tier == 'quick' else 18):
        out.append({'mode': 'consistency', 'kind': 'family', 'n': int(rng.choice([10000, 12500, 25000])), 'tau': float(rng.uniform(0.2, 0.7)),
                    'fam': str(rng.choice(biv.FAMILIES)), 'seed': int(rng.integers(1 << 31))})
    for fam in biv.FAMILIES:
        for tau in CELL_TAUS[tier]:
            for s in range(SEEDS[tier] // 20):
                out.append({'mode': 'recovery', 'family': fam, 'tau': tau, 'n': 3000, 'reps': 20,
                            'seed': int(rng.integers(1 << 31))})
    return out


def _fam_of(model):
    from copulas.bivariate import Clayton, Frank, Gumbel
    for name, c in (('clayton', Clayton), ('frank', Frank), ('gumbel', Gumbel)):
        if type(model) is c:
            return name
    return None


def _consistency(spec, ctx):
    from copulas.bivariate import Bivariate, select_copula
    X = c10.dataset(spec)
    where = {'kind': spec['kind'], 'n': int(len(X))}
    X0 = X.copy()
    ok, m = ctx.call(select_copula, X)
    if len(X) > 4000:
        from scipy.stats import kendalltau          # O(n log n); cross-checked against the O(n^2) definition below 600 rows
        tb = float(kendalltau(X[:, 0], X[:, 1])[0])
    else:
        tb = rank.tau_b(X[:, 0], X[:, 1])
    outside = (X < 0).any() or (X > 1).any()
    constant = len(np.unique(X[:, 0])) == 1 or len(np.unique(X[:, 1])) == 1
    ctx.check(np.array_equal(X, X0), 'select.input-unchanged', 'C11:input-modified', where)
    if not ok:
        if isinstance(m, ValueError) and (outside or constant):
            ctx.ok('select.refuses')
            ctx.nontriv('refuse|%s|%d' % (spec['kind'], spec['seed']))
            return
        ctx.violation('select.returns-family', 'C11:' + exc_mech(m), dict(exc_detail(m), **where, tau_b=tb))
        return
    if outside or constant:
        ctx.violation('select.refuses', 'C11:accepted-invalid-data', dict(where, got=repr(m)[:80]))
        return
    fam = _fam_of(m)
    if not ctx.check(fam is not None, 'select.returns-family', 'C11:not-a-family-instance',
                     lambda: dict(where, got=type(m).__name__)):
        return
    ctx.note('selected ' + fam)
    ctx.check(m.tau is not None and abs(m.tau - tb) <= 1e-12, 'select.tau-is-tau-b', 'C11:tau-not-tau-b',
              lambda: dict(where, tau=m.tau, tau_b=tb, family=fam))
    if tb <= 0:
        ctx.check(fam == 'frank', 'select.frank-for-nonpositive-tau', 'C11:non-frank-for-nonpositive-tau',
                  lambda: dict(where, tau_b=tb, family=fam))
    # theta is that family's calibration of tau
    theta = m.theta
    if abs(tb) == 1 or (fam == 'frank' and abs(tb) > 0.99):
        ctx.note('calibration not judged (|tau| at the edge)')
    elif fam in ('clayton', 'gumbel'):
        ref = float(arch.theta_from_tau(fam, tb))
        ctx.check(theta is not None and abs(theta - ref) <= 1e-12 * max(1, abs(ref)), 'select.calibrated',
                  'C11:%s-theta-miscalibrated' % fam, lambda: dict(where, theta=theta, ref=ref, tau_b=tb))
    else:
        tref = float(arch.Arch('frank', theta).tau()) if theta else float('nan')
        ctx.check(theta is not None and theta != 0 and abs(tref - tb) <= frank_tol(tb), 'select.calibrated',
                  'C11:frank-theta-miscalibrated', lambda: dict(where, theta=theta, tau_of_theta=tref, tau_b=tb))
    # determinism on an equal copy, and through the deprecated alias
    ok2, m2 = ctx.call(select_copula, X0.copy())
    ctx.check(ok2 and type(m2) is type(m) and m2.theta == m.theta and m2.tau == m.tau, 'select.deterministic',
              'C11:nondeterministic', lambda: dict(where, a=[fam, m.theta], b=[repr(m2)[:60], getattr(m2, 'theta', None)]))
    Xa = c10._flavoured(X0.copy(), spec.get('flavour', 'plain'))     # the alias sees the same kind of array (read-only, F-ordered, ...)
    ok3, m3 = ctx.call(Bivariate.select_copula, Xa)
    ctx.check(ok3 and type(m3) is type(m) and m3.theta == m.theta, 'select.alias', 'C11:alias-differs',
              lambda: dict(where, a=[fam, m.theta], b=[repr(m3)[:60], getattr(m3, 'theta', None)], flavour=spec.get('flavour')))
    ctx.check(np.array_equal(Xa, X0), 'select.input-unchanged', 'C11:input-modified-by-alias', where)
    # the returned model is the caller's: a later call on other data must not change it
    snap = (type(m), m.theta, m.tau)
    rng2 = rng_for(spec['seed'], 'other')
    for _ in range(2):
        Y = samplers.SAMPLERS[fam](float(arch.theta_from_tau(fam, rng2.uniform(0.2, 0.7) if fam != 'frank' else rng2.uniform(0.2, 0.7))),
                                   400, rng2)
        oky, my = ctx.call(select_copula, Y)
        ctx.check(oky and my is not m and (type(m), m.theta, m.tau) == snap, 'select.result-not-shared',
                  'C11:earlier-result-changed-by-later-call', lambda: dict(where, before=[snap[1], snap[2]], after=[m.theta, m.tau],
                                                                         same_object=bool(oky and my is m)))
    # a sample whose tau differs in the 5th decimal only (two neighbouring values of one column swapped) gets the
    # calibration of ITS tau: nothing may be shared between selections on nearly equal data
    if spec['kind'] in ('gauss', 'family', 'independent', 'permuted') and len(X) >= 20:
        X2 = np.array(X0, dtype=float, order='C')
        order = np.argsort(X2[:, 1], kind='stable')
        a, b = order[len(X2) // 2], order[len(X2) // 2 + 1]
        X2[a, 1], X2[b, 1] = X2[b, 1], X2[a, 1]
        okt, mt = ctx.call(select_copula, X2)
        if okt and _fam_of(mt) is not None and mt.theta is not None:
            tb2 = rank.tau_b(X2[:, 0], X2[:, 1]) if len(X2) <= 4000 else None
            f2 = _fam_of(mt)
            if tb2 is not None and abs(tb2) < 0.99 and mt.theta not in (0, float('inf')):
                t2 = float(arch.Arch(f2, mt.theta).tau())
                tol2 = frank_tol(tb2) if f2 == 'frank' else 1e-12
                ctx.check(abs(t2 - tb2) <= tol2, 'select.calibrated', 'C11:%s-theta-miscalibrated' % f2,
                          lambda: dict(where, twin_of_previous_sample=True, theta=mt.theta, tau_of_theta=t2, tau_b=tb2))
    # the selection is a function of the sample, not of the order of its rows
    if len(X) >= 6:
        Xs = X0[np.argsort(X0[:, 0], kind='stable')]
        oks, ms = ctx.call(select_copula, Xs)
        ctx.check(oks and type(ms) is type(m) and (ms.theta == m.theta or abs(ms.theta - m.theta) <= 1e-9 * max(1, abs(m.theta))),
                  'select.row-order-invariant', 'C11:selection-depends-on-row-order',
                  lambda: dict(where, original=[fam, m.theta], sorted_rows=[repr(ms)[:50], getattr(ms, 'theta', None)]))
    ctx.nontriv('%s|%d|%d' % (spec['kind'], spec['n'], spec['seed']))


def _recovery(spec, ctx):
    from copulas.bivariate import select_copula
    fam, tau = spec['family'], spec['tau']
    rng = rng_for(spec['seed'])
    th = float(arch.theta_from_tau(fam, tau))
    cell = 'recovery|%s|%.1f' % (fam, tau)
    for r in range(spec['reps']):
        X = samplers.SAMPLERS[fam](th, spec['n'], rng)
        ok, m = ctx.call(select_copula, X)
        if not ok:
            ctx.violation('select.returns-family', 'C11:' + exc_mech(m),
                          dict(exc_detail(m), family=fam, tau=tau))
            ctx.tally(cell, False)
            continue
        ctx.tally(cell, _fam_of(m) == fam)
        ctx.ok('select.recovery-run')
        if r % 4 == 0:
            # same sample, rows sorted by one column: same selection
            j = (r // 4) % 2
            oks, ms = ctx.call(select_copula, X[np.argsort(X[:, j], kind='stable')])
            ctx.check(oks and type(ms) is type(m) and (ms.theta == m.theta or abs(ms.theta - m.theta) <= 1e-9 * max(1, abs(m.theta))),
                      'select.row-order-invariant', 'C11:selection-depends-on-row-order',
                      lambda: {'family': fam, 'tau': tau, 'n': spec['n'], 'original': [_fam_of(m), m.theta],
                               'sorted_rows': [_fam_of(ms) if oks else repr(ms)[:50], getattr(ms, 'theta', None)]})
    ctx.nontriv('%s|%d' % (cell, spec['seed']))
    ctx.sample({'mode': 'recovery', 'family': fam, 'tau': tau, 'theta': th, 'n': spec['n']})


def run_case(spec, ctx):
    if spec['mode'] == 'recovery':
        return _recovery(spec, ctx)
    return _consistency(spec, ctx)


def finalize(agg, ctx):
    cells = {k: v for k, v in agg['tallies'].items() if k.startswith('recovery|')}
    if not cells:
        return
    delta = stats.DELTA_RUN / max(1, len(cells))
    for cell, (succ, trials) in sorted(cells.items()):
        lo, hi = stats.clopper_pearson(succ, trials)
        rejected = stats.binom_rejects_at_least(succ, trials, 0.7, delta)
        powerless = stats.binom_max_rejected(trials, 0.7, delta) < 0
        if powerless:
            ctx.inconclusive('select.recovery-cell', 'too-few-seeds', {'cell': cell, 'trials': trials})
            continue
        ctx.check(not rejected, 'select.recovery-cell', 'C11:recovery-below-70-percent',
                  {'cell': cell, 'successes': succ, 'trials': trials, 'ci99': [lo, hi]})
        ctx.maxstat('1 - recovery fraction', 1 - succ / trials, {'cell': cell, 'successes': succ, 'trials': trials})
