"""C18 - vectorised root finders return a bracketed root for every lane."""

import numpy as np

from vmon.core import exc_detail, exc_mech, rng_for

PROPERTY = 'C18'
RULE = ('one case per generated batch: lanes draw a kind (linear, cubic with flat root, tanh, expm1, '
        'steep/shallow), slope 1e-6..1e6, root position (interior, at either bracket end, near an end), '
        'bracket width 1e-3..1e6 and offset; batch sizes 1,2,17,200,1000; zero-width brackets at a root mixed with ordinary lanes; both solvers; oracle per lane: '
        'finite, inside bracket, sign change of f at x +/- tol (bisect 1e-8; chandrupatla 1e-9*width or '
        'f(x)==0), same lane alone / in a permuted or recomposed batch agrees within tolerance, every '
        'evaluation inside the bracket, evaluation count <= maxiter+2; invalid brackets must raise; '
        'scalar chandrupatla == 1-vector; plus GaussianKDE.percent_point through both solvers; '
        'non-trivial = batch solved and judged lane by lane; distinct by batch spec')
DECIDING = {'root.sign-change': 2000, 'root.lane-independence': 200, 'root.invalid-bracket-rejected': 10}
ASSUMPTIONS = ['sign-change criterion is sound for any continuous non-decreasing f whatever its slope',
               'bisect reaches 1e-8 only for bracket widths <= 1.1e7 (50 halvings); widths stay <= 1e6']

KINDS = ('linear', 'cubic', 'tanh', 'expm1')


def cases(seed, tier):
    rng = rng_for(seed, 'C18')
    reps = 60 if tier == 'quick' else 30000
    out = []
    for r in range(reps):
        for solver in ('bisect', 'chandrupatla'):
            size = int(rng.choice([1, 2, 17, 200, 1000], p=[0.15, 0.15, 0.3, 0.3, 0.1]))
            out.append({'mode': 'batch', 'solver': solver, 'size': size,
                        'mixed': bool(rng.random() < 0.7), 'seed': int(rng.integers(1 << 31))})
    for r in range(24 if tier == 'quick' else 200):
        out.append({'mode': 'invalid', 'solver': 'bisect' if r % 2 else 'chandrupatla',
                    'size': int(rng.choice([1, 5, 64])), 'seed': int(rng.integers(1 << 31))})
        out.append({'mode': 'scalar', 'solver': 'chandrupatla', 'size': 1, 'seed': int(rng.integers(1 << 31))})
    for r in range(12 if tier == 'quick' else 150):
        out.append({'mode': 'overlapping', 'solver': 'bisect' if r % 2 else 'chandrupatla', 'size': int(rng.choice([2, 5, 60])),
                    'seed': int(rng.integers(1 << 31))})
    for r in range(12 if tier == 'quick' else 150):
        out.append({'mode': 'int-bracket', 'solver': 'bisect' if r % 2 else 'chandrupatla', 'size': int(rng.choice([1, 3, 40])),
                    'seed': int(rng.integers(1 << 31))})
    for r in range(16 if tier == 'quick' else 300):
        out.append({'mode': 'zero-width', 'solver': 'bisect' if r % 2 else 'chandrupatla',
                    'size': int(rng.choice([1, 2, 7, 80])), 'seed': int(rng.integers(1 << 31))})
    for r in range(6 if tier == 'quick' else 60):
        out.append({'mode': 'kde', 'solver': 'bisect' if r % 2 else 'chandrupatla', 'size': 40,
                    'seed': int(rng.integers(1 << 31))})
    return out


class Lanes:
    """A batch of monotone functions with known roots; records every evaluation."""

    def __init__(self, rng, size, mixed):
        kinds = rng.integers(0, 4, size) if mixed else np.full(size, rng.integers(0, 4))
        self.kind = kinds
        self.slope = 10 ** rng.uniform(-6, 6, size)
        self.k = 10 ** rng.uniform(-2, 2, size)
        width = 10 ** rng.uniform(-3, 6, size)
        off = rng.choice([0.0, 1.0, -1.0, 1e3, -1e5], size) * rng.random(size)
        pos = rng.choice(5, size, p=[0.5, 0.1, 0.1, 0.15, 0.15])
        frac = np.select([pos == 0, pos == 1, pos == 2, pos == 3, pos == 4],
                         [rng.random(size), np.zeros(size), np.ones(size),
                          10 ** rng.uniform(-12, -3, size), 1 - 10 ** rng.uniform(-12, -3, size)])
        self.xmin = off
        self.xmax = off + width
        self.root = self.xmin + frac * width
        self.root = np.clip(self.root, self.xmin, self.xmax)
        self.reset()

    def reset(self):
        self.calls = 0
        self.seen_lo = np.full(len(self.root), np.inf)
        self.seen_hi = np.full(len(self.root), -np.inf)

    def sub(self, idx):
        o = object.__new__(Lanes)
        for a in ('kind', 'slope', 'k', 'xmin', 'xmax', 'root'):
            setattr(o, a, getattr(self, a)[idx].copy())
        o.reset()
        return o

    def value(self, x):
        d = x - self.root
        with np.errstate(all='ignore'):
            return np.select([self.kind == 0, self.kind == 1, self.kind == 2, self.kind == 3],
                             [self.slope * d, self.slope * d ** 3, self.slope * np.tanh(self.k * d),
                              self.slope * np.expm1(np.clip(self.k * d, -600, 600))])

    def __call__(self, x):
        x = np.asarray(x, dtype=float)
        self.calls += 1
        if x.shape == self.root.shape:
            self.seen_lo = np.fmin(self.seen_lo, x)
            self.seen_hi = np.fmax(self.seen_hi, x)
        return self.value(x)


def tolerance(solver, lanes):
    if solver == 'bisect':
        return np.full(len(lanes.root), 1e-8)
    # 1e-9 of the bracket width, but never below floating-point resolution at the bracket
    return np.maximum(1e-9 * (lanes.xmax - lanes.xmin),
                      4 * np.spacing(np.maximum(np.abs(lanes.xmin), np.abs(lanes.xmax))))


def solve(ctx, solver, lanes, where):
    from copulas import optimize
    fn = getattr(optimize, solver)
    ok, res = ctx.call(fn, lanes, lanes.xmin.copy(), lanes.xmax.copy())
    if not ok:
        ctx.violation('root.call', 'C18:%s-%s' % (solver, exc_mech(res)), dict(exc_detail(res), **where))
        return None
    res = np.asarray(res, dtype=float)
    if res.shape != lanes.root.shape:
        ctx.violation('root.call', 'C18:%s-shape' % solver, dict(where, shape=list(res.shape)))
        return None
    return res


def judge(ctx, solver, lanes, x, where):
    tol = tolerance(solver, lanes)
    fin = np.isfinite(x)
    k = int(np.argmax(~fin))
    ctx.check(fin.all(), 'root.finite', 'C18:%s-nonfinite-lane' % solver,
              lambda: dict(where, lanes_bad=int((~fin).sum()), kind=KINDS[lanes.kind[k]], slope=lanes.slope[k],
                           bracket=[lanes.xmin[k], lanes.xmax[k]], root=lanes.root[k], alone=_alone(solver, lanes, k)))
    inside = (x >= lanes.xmin) & (x <= lanes.xmax)
    k = int(np.argmax(fin & ~inside))
    ctx.check((inside | ~fin).all(), 'root.inside-bracket', 'C18:%s-outside-bracket' % solver,
              lambda: dict(where, x=x[k], bracket=[lanes.xmin[k], lanes.xmax[k]]))
    xs = np.where(fin, x, lanes.root)
    lo = lanes.value(np.maximum(xs - tol, lanes.xmin))
    hi = lanes.value(np.minimum(xs + tol, lanes.xmax))
    good = (lo <= 0) & (hi >= 0)
    if solver == 'chandrupatla':
        good |= lanes.value(xs) == 0
    bad = fin & ~good
    k = int(np.argmax(bad))
    ctx.check(not bad.any(), 'root.sign-change', 'C18:%s-not-a-root' % solver,
              lambda: dict(where, lanes_bad=int(bad.sum()), x=x[k], root=lanes.root[k], tol=tol[k],
                           kind=KINDS[lanes.kind[k]], slope=lanes.slope[k], k=lanes.k[k],
                           bracket=[lanes.xmin[k], lanes.xmax[k]]))
    ctx.ok('root.sign-change', max(0, int(fin.sum()) - 1))
    ctx.maxstat('%s |x - root| / tol' % solver, np.max(np.abs(xs - lanes.root) / tol), where)
    # every evaluation inside the bracket
    slack = 4 * np.spacing(np.maximum(np.abs(lanes.xmin), np.abs(lanes.xmax)))
    out = (lanes.seen_lo < lanes.xmin - slack) | (lanes.seen_hi > lanes.xmax + slack)
    k = int(np.argmax(out))
    ctx.check(not out.any(), 'root.evaluations-inside-bracket', 'C18:%s-evaluates-outside-bracket' % solver,
              lambda: dict(where, seen=[lanes.seen_lo[k], lanes.seen_hi[k]], bracket=[lanes.xmin[k], lanes.xmax[k]]))
    ctx.check(lanes.calls <= 52, 'root.iteration-cap', 'C18:%s-too-many-evaluations' % solver,
              lambda: dict(where, calls=lanes.calls))
    return fin & good & inside


def _alone(solver, lanes, k):
    from copulas import optimize
    one = lanes.sub(np.array([k]))
    try:
        return float(np.asarray(getattr(optimize, solver)(one, one.xmin.copy(), one.xmax.copy()))[0])
    except Exception as exc:  # noqa: BLE001
        return repr(exc)[:80]


def run_case(spec, ctx):
    rng = rng_for(spec['seed'])
    solver, size = spec['solver'], spec['size']
    where = {'solver': solver, 'size': size, 'mode': spec['mode']}
    from copulas import optimize
    if spec['mode'] == 'invalid':
        lanes = Lanes(rng, size, True)
        j = int(rng.integers(size))
        interior = (lanes.root > lanes.xmin) & (lanes.root < lanes.xmax)
        if not interior.any():
            return
        j = int(np.flatnonzero(interior)[0])
        xmin, xmax = lanes.xmin.copy(), lanes.xmax.copy()
        w = xmax[j] - xmin[j]
        if solver == 'bisect' and rng.random() < 0.4:
            # reversed bracket: f(xmin) > 0 > f(xmax) in one lane, or in all lanes
            sel_ = np.array([j]) if rng.random() < 0.5 else np.flatnonzero(interior)
            xmin[sel_], xmax[sel_] = lanes.xmax[sel_], lanes.xmin[sel_]
            if not ((lanes.value(xmin)[sel_] > 0).all() and (lanes.value(xmax)[sel_] < 0).all()):
                return
            ok, res = ctx.call(optimize.bisect, lanes, xmin, xmax)
            ctx.check(not ok, 'root.invalid-bracket-rejected', 'C18:bisect-accepts-reversed-bracket',
                      lambda: dict(where, lanes_reversed=int(len(sel_))))
            ctx.nontriv('reversed|%d' % spec['seed'])
            return
        if rng.random() < 0.5:
            xmin[j], xmax[j] = lanes.root[j] + 0.25 * (xmax[j] - lanes.root[j]), xmax[j]   # f(xmin) > 0
        else:
            xmin[j], xmax[j] = xmin[j], lanes.root[j] - 0.25 * (lanes.root[j] - xmin[j])   # f(xmax) < 0
        if not (lanes.value(xmin)[j] > 0 or lanes.value(xmax)[j] < 0) or w <= 0:
            return
        ok, res = ctx.call(getattr(optimize, solver), lanes, xmin, xmax)
        ctx.check(not ok, 'root.invalid-bracket-rejected', 'C18:%s-accepts-invalid-bracket' % solver,
                  lambda: dict(where, lane=j, returned=np.asarray(res)[j]))
        ctx.nontriv('invalid|%d' % spec['seed'])
        return
    if spec['mode'] == 'scalar':
        lanes = Lanes(rng, 1, True)
        one = lanes.sub(np.array([0]))

        def fs(x):
            return float(one.value(np.array([x]))[0])
        ok, s = ctx.call(optimize.chandrupatla, fs, float(lanes.xmin[0]), float(lanes.xmax[0]))
        v = solve(ctx, 'chandrupatla', lanes, where)
        if not ok:
            ctx.violation('root.scalar', 'C18:chandrupatla-scalar-' + exc_mech(s), dict(exc_detail(s), **where))
        elif v is not None:
            tol = tolerance('chandrupatla', lanes)[0]
            ctx.check(np.ndim(s) == 0 and abs(float(s) - v[0]) <= 2 * tol + 1e-300, 'root.scalar',
                      'C18:chandrupatla-scalar-differs', lambda: dict(where, scalar=repr(s), vector=v[0]))
            ctx.nontriv('scalar|%d' % spec['seed'])
        return
    if spec['mode'] == 'kde':
        return _kde(spec, ctx, rng, where)
    if spec['mode'] == 'overlapping':
        # xmin = grid[:-1], xmax = grid[1:]: the two bracket arrays share memory
        n = max(2, size)
        grid = np.sort(rng.uniform(-5, 5, n + 1))
        grid += np.arange(n + 1) * 1e-3
        lanes = Lanes(rng, n, True)
        lanes.xmin, lanes.xmax = grid[:-1].copy(), grid[1:].copy()
        lanes.root = lanes.xmin + rng.uniform(0.05, 0.95, n) * (lanes.xmax - lanes.xmin)
        lanes.reset()
        g0 = grid.copy()
        ok, x = ctx.call(getattr(optimize, solver), lanes, grid[:-1], grid[1:])
        if not ok:
            ctx.violation('root.call', 'C18:%s-overlapping-views-%s' % (solver, exc_mech(x)), dict(exc_detail(x), **where))
            return
        judge(ctx, solver, lanes, np.asarray(x, dtype=float), where)
        ctx.check(np.array_equal(grid, g0), 'root.bracket-untouched', 'C18:%s-modifies-bracket-arrays' % solver, where)
        ctx.nontriv('overlap|%s|%d' % (solver, spec['seed']))
        return
    if spec['mode'] == 'zero-width':
        # degenerate but valid brackets: xmin == xmax == root (f(xmin) <= 0 <= f(xmax) holds with equality)
        lanes = Lanes(rng, size, True)
        z = rng.random(size) < (1.0 if size == 1 else 0.4)
        z[int(rng.integers(size))] = True
        lanes.xmin = np.where(z, lanes.root, lanes.xmin)
        lanes.xmax = np.where(z, lanes.root, lanes.xmax)
        lanes.reset()
        x = solve(ctx, solver, lanes, where)
        if x is None:
            return
        judge(ctx, solver, lanes, x, dict(where, zero_width_lanes=int(z.sum())))
        ctx.check(bool((x[z] == lanes.root[z]).all()), 'root.zero-width-bracket', 'C18:%s-zero-width-lane-not-returned' % solver,
                  lambda: dict(where, zero_width_lanes=int(z.sum()), returned=x[z][:3], bracket=lanes.root[z][:3]))
        ctx.nontriv('zero|%s|%d' % (solver, spec['seed']))
        return
    if spec['mode'] == 'int-bracket':
        # brackets whose ends are whole numbers, passed as integer arrays (or lists of ints)
        lanes = Lanes(rng, size, True)
        lanes.xmin = np.floor(lanes.xmin) - 1
        lanes.xmax = lanes.xmin + np.ceil(rng.uniform(1, 50, size))
        lanes.root = lanes.xmin + rng.uniform(0.05, 0.95, size) * (lanes.xmax - lanes.xmin)
        lanes.reset()
        lo, hi = lanes.xmin.astype(np.int64), lanes.xmax.astype(np.int64)
        ok, x = ctx.call(getattr(optimize, solver), lanes, lo, hi)
        if not ok:
            ctx.violation('root.call', 'C18:%s-int-bracket-%s' % (solver, exc_mech(x)), dict(exc_detail(x), **where))
            return
        x = np.asarray(x, dtype=float)
        judge(ctx, solver, lanes, x, where)
        ctx.check(lo.dtype == np.int64 and np.array_equal(lo, lanes.xmin) and np.array_equal(hi, lanes.xmax), 'root.int-bracket-untouched',
                  'C18:%s-modifies-integer-bracket' % solver, where)
        ctx.nontriv('int|%s|%d' % (solver, spec['seed']))
        return

    lanes = Lanes(rng, size, spec['mixed'])
    x = solve(ctx, solver, lanes, where)
    if x is None:
        return
    good = judge(ctx, solver, lanes, x, where)
    ctx.nontriv('%s|%d|%d' % (solver, size, spec['seed']))
    # lane independence: same lanes alone, in a permuted batch, in a recomposed batch -------------
    tol = tolerance(solver, lanes)
    pick = rng.choice(size, size=min(size, 6), replace=False)
    for k in pick:
        one = lanes.sub(np.array([k]))
        xa = solve(ctx, solver, one, where)
        if xa is None:
            continue
        ctx.check(np.isfinite(xa[0]) and (not np.isfinite(x[k]) or abs(xa[0] - x[k]) <= 2 * tol[k]),
                  'root.lane-independence', 'C18:%s-lane-alone-differs' % solver,
                  lambda: dict(where, in_batch=x[k], alone=xa[0], root=lanes.root[k], tol=tol[k]))
        judge(ctx, solver, one, xa, dict(where, size=1))
    if size > 1:
        perm = rng.permutation(size)
        lp = lanes.sub(perm)
        xp = solve(ctx, solver, lp, where)
        if xp is not None:
            both = np.isfinite(xp) & np.isfinite(x[perm])
            d = np.abs(xp - x[perm]) / tol[perm]
            k = int(np.argmax(np.where(both, d, 0)))
            ctx.check((np.where(both, d, 0) <= 2).all() and (np.isfinite(xp) == np.isfinite(x[perm])).all(),
                      'root.lane-independence', 'C18:%s-order-dependence' % solver,
                      lambda: dict(where, worst=float(d[k])))
        sub = rng.choice(size, size=max(1, size // 3), replace=False)
        ls = lanes.sub(sub)
        xsub = solve(ctx, solver, ls, where)
        if xsub is not None:
            both = np.isfinite(xsub) & np.isfinite(x[sub])
            d = np.where(both, np.abs(xsub - x[sub]) / tol[sub], 0)
            ctx.check((d <= 2).all() and (np.isfinite(xsub) == np.isfinite(x[sub])).all(),
                      'root.lane-independence', 'C18:%s-batch-composition-dependence' % solver,
                      lambda: dict(where, worst=float(d.max()), nonfinite_sub=int((~np.isfinite(xsub)).sum()),
                                   nonfinite_full=int((~np.isfinite(x[sub])).sum())))
    ctx.sample({'solver': solver, 'size': size, 'kinds': [KINDS[i] for i in lanes.kind[:4]],
                'brackets': np.column_stack([lanes.xmin, lanes.xmax])[:2].tolist()})


def _kde(spec, ctx, rng, where):
    from copulas.univariate import GaussianKDE
    data = rng.choice([rng.normal(size=200), np.concatenate([rng.normal(-4, 1, 100), rng.normal(5, 0.5, 100)]),
                       rng.exponential(size=200)], axis=0) if False else None
    kind = int(rng.integers(3))
    data = [rng.normal(size=200), np.concatenate([rng.normal(-4, 1, 100), rng.normal(5, 0.5, 100)]),
            rng.exponential(size=200)][kind]
    m = GaussianKDE()
    m.fit(data)
    q = np.concatenate([rng.random(spec['size']), [1e-6, 1e-3, 0.5, 1 - 1e-3, 1 - 1e-6]])
    ok, x = ctx.call(m.percent_point, q, method=spec['solver'])
    if not ok:
        ctx.violation('root.kde', 'C18:kde-%s-%s' % (spec['solver'], exc_mech(x)), dict(exc_detail(x), **where))
        return
    lower, upper = m._get_bounds()
    tol = 1e-8 if spec['solver'] == 'bisect' else 1e-9 * (upper - lower)
    lo = m.cumulative_distribution(np.maximum(x - tol, lower)) - q
    hi = m.cumulative_distribution(np.minimum(x + tol, upper)) - q
    bad = ~((lo <= 1e-13) & (hi >= -1e-13))
    k = int(np.argmax(bad))
    ctx.check(not bad.any(), 'root.kde', 'C18:kde-%s-not-a-root' % spec['solver'],
              lambda: dict(where, q=q[k], x=x[k], below=lo[k], above=hi[k]))
    ctx.ok('root.kde', len(q) - 1)
    ctx.nontriv('kde|%s|%d' % (spec['solver'], spec['seed']))
