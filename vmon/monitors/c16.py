"""C16 - a fitted vine is a regular vine of the requested type and depth."""

import numpy as np

from vmon import vines
from vmon.core import exc_detail, exc_mech, rng_for

PROPERTY = 'C16'
RULE = ('one case per (table, column permutation, vine type, truncation, np.empty sentinel): tables with '
        'd in 2..7, n in {60,300}; dependence patterns random Gram, equicorrelated, exact ties (rounded / '
        'shared rank patterns), one negated column, block, monotone transforms, near-duplicate column; '
        'ALL column permutations for d <= 4 and random ones above, so that the ordering of pairwise |tau| '
        'varies; 3 vine types x truncation in {1,2,3,d-1,10}; np.empty buffers of tree.py/vine.py are '
        'filled with a chosen sentinel (+111, -222, NaN, 0) so that structure choices that read '
        'unwritten cells are exercised deterministically; a fit that raises ValueError counts as refused; '
        'non-trivial = fit succeeded and every edge was judged; distinct by case spec; evidence counts the '
        'distinct |tau| rank orderings seen')
DECIDING = {'vine.spanning-tree': 300, 'vine.edge-sets': 1000, 'vine.pair-once': 1000, 'vine.edge-copula': 1000,
            'vine.depth': 150, 'vine.first-tree-maximal': 30, 'vine.shape': 200}
ASSUMPTIONS = ['O(n^2) tau-b for the maximum-spanning-tree weight (weights, not edge sets, so ties cannot alarm)',
               'parents are compared by object identity with the edges of the previous tree']


def cases(seed, tier):
    rng = rng_for(seed, 'C16')
    out = []
    tables = 48 if tier == 'quick' else 1200
    per = 12 if tier == 'quick' else 36
    for ti in range(tables):
        d = int(rng.choice([2, 3, 4, 5, 6, 7], p=[.1, .2, .25, .2, .15, .1]))
        base = {'d': d, 'n': int(rng.choice([60, 300])), 'pattern': str(rng.choice(vines.PATTERNS)),
                'seed': int(rng.integers(1 << 31))}
        perms = vines.permutations(d, rng)
        idx = rng.permutation(len(perms))[:per]
        for i in idx:
            out.append({'table': dict(base, perm=[int(x) for x in perms[int(i)]]),
                        'vine_type': str(rng.choice(['center', 'direct', 'regular'])),
                        'truncated': int(rng.choice([1, 2, 3, max(1, d - 1), 10])),
                        'sentinel': str(rng.choice(['pos', 'neg', 'nan', 'zero']))})
    return out


def run_case(spec, ctx):
    t = spec['table']
    df = vines.make_table(t)
    where = {'vine_type': spec['vine_type'], 'truncated': spec['truncated'], 'd': t['d'], 'n': t['n'],
             'pattern': t['pattern'], 'perm': t['perm'], 'sentinel': spec['sentinel']}
    past = None
    if t['seed'] % 3 == 0:
        from vmon.core import rng_for as _r
        past = vines.past_table(df, _r(t['seed'], 'past'))
        where['refitted'] = True
    model, poison = vines.fit(ctx, spec['vine_type'], df, spec['truncated'], spec['sentinel'], past=past)
    if poison is None:
        exc = model
        if vines.is_refusal(exc):
            ctx.note('fit refused with ValueError (%s)' % t['pattern'])
            ctx.ok('vine.refused')
            return
        ctx.violation('vine.fit', 'C16:fit-' + exc_mech(exc), dict(exc_detail(exc), **where))
        return
    judged = vines.check_structure(ctx, model, df, spec['vine_type'], spec['truncated'], where)
    vines.check_to_dict(ctx, model, where)
    ctx.check(model.fitted is True, 'vine.fitted-flag', 'C16:not-marked-fitted', where)
    if judged:
        ctx.nontriv('%r' % sorted(spec.items(), key=str))
        # which ordering of the pairwise |tau| did this permutation present?
        X = df.to_numpy()
        if t['d'] <= 5:
            from vmon.refs import rank
            taus = [abs(rank.tau_b(X[:, i], X[:, j])) for i in range(t['d']) for j in range(i + 1, t['d'])]
            ctx.distinct('orderings of pairwise |tau|', '%d:' % t['d'] + ''.join(map(str, np.argsort(taus))))
    ctx.sample({'table': t, 'vine_type': spec['vine_type'], 'truncated': spec['truncated'],
                'trees': [[[int(e.L), int(e.R), sorted(int(x) for x in e.D), e.name.name] for e in tr.edges]
                          for tr in model.trees]})
