"""C08 - percent_point inverts the conditional CDF of every bivariate copula."""

import numpy as np

from vmon import biv
from vmon.core import exc_detail, exc_mech, rng_for
from vmon.refs import arch

PROPERTY = 'C08'
RULE = ('one case per (family, theta) as in C06 plus the independence copula; per case the 11x11 '
        '(y,v) product grid over [1e-4,1-1e-4]^2, random (y,v), y-lines at fixed v, and random '
        'vector recompositions (lengths 1,2,13, permuted); every returned u is judged by a '
        'sign-change test of the conditional CDF at u +/- delta (delta = 4e-12 + 4 ulp); '
        'non-trivial = the inverse returned for the whole grid and the sign-change oracle ran; '
        'distinct by (family, theta)')
DECIDING = {'ppf.inverts-h': 500, 'ppf.inverts-h-ref': 300, 'ppf.elementwise': 20,
            'ppf.monotone-in-y': 20}
ASSUMPTIONS = ['root-finder tolerance: brentq xtol=2e-12 in u; function-value slack 1e-12 (own h), '
               '1e-6*y + 1e-8 (mpmath reference h)']


def cases(seed, tier):
    rng = rng_for(seed, 'C08')
    n_rand = 4 if tier == 'quick' else 800
    out = []
    for fam in biv.FAMILIES:
        for th in biv.theta_list(fam, n_rand, rng):
            out.append({'family': fam, 'theta': th, 'n_rand': 40 if tier == 'quick' else 300,
                        'seed': int(rng.integers(1 << 31))})
    out.append({'family': 'independence', 'theta': None, 'n_rand': 40,
                'seed': int(rng.integers(1 << 31))})
    return out


def _ppf(ctx, model, y, v, where, probe='ppf.call'):
    ok, res = ctx.call(model.percent_point, y, v)
    if not ok:
        k = None
        # find the first element that fails alone, for the witness
        for i in range(len(y)):
            o, _ = ctx.call(model.percent_point, y[i:i + 1], v[i:i + 1])
            if not o:
                k = i
                break
        det = dict(exc_detail(res), **where)
        if k is not None:
            det.update(y=float(y[k]), v=float(v[k]))
        ctx.violation(probe, 'C08:' + exc_mech(res), det)
        return None
    res = np.asarray(res, dtype=float)
    if res.shape != (len(y),):
        ctx.violation(probe, 'C08:shape', dict(where, shape=list(res.shape), n=len(y)))
        return None
    return res


def _elementwise_ok(ctx, model, y, v, where):
    """ppf on the elements that can be inverted alone (so one failing lane does not hide the rest)."""
    out = np.full(len(y), np.nan)
    failed = []
    for i in range(len(y)):
        o, r = ctx.call(model.percent_point, y[i:i + 1], v[i:i + 1])
        if o:
            out[i] = np.asarray(r, dtype=float)[0]
        else:
            failed.append((i, r))
    return out, failed


def run_case(spec, ctx):
    fam, th = spec['family'], spec['theta']
    rng = rng_for(spec['seed'])
    where = {'family': fam, 'theta': th}
    if fam == 'independence':
        return _independence(spec, ctx, rng, where)
    model = biv.make_model(fam, th)

    g = biv.INTERIOR11
    Y, V = np.meshgrid(g, g, indexing='ij')
    y = np.concatenate([Y.ravel(), rng.uniform(1e-4, 1 - 1e-4, spec['n_rand'])])
    v = np.concatenate([V.ravel(), rng.uniform(1e-4, 1 - 1e-4, spec['n_rand'])])

    u = _ppf(ctx, model, y, v, where)
    if u is None:
        # keep observing the lanes that do work
        u, failed = _elementwise_ok(ctx, model, y, v, where)
        ctx.note('lanes failing alone', len(failed))
        good = np.isfinite(u)
        if not good.any():
            return
        y, v, u = y[good], v[good], u[good]
    else:
        ctx.nontriv('%s|%r' % (fam, th))

    ctx.check(((u >= 0) & (u <= 1)).all(), 'ppf.range', 'C08:out-of-range',
              lambda: dict(where, got=u[~((u >= 0) & (u <= 1))][:3]))

    delta = 4e-12 + 4 * np.spacing(u)
    ulo = np.clip(u - delta, 0.0, 1.0)
    uhi = np.clip(u + delta, 0.0, 1.0)
    # (a) against the model's own conditional CDF
    okh, hs = ctx.call(lambda: (model.partial_derivative(np.column_stack([ulo, v])),
                                model.partial_derivative(np.column_stack([uhi, v]))))
    if okh:
        hlo, hhi = [np.asarray(z, dtype=float) for z in hs]
        bad = ~((hlo <= y + 1e-12) & (hhi >= y - 1e-12))
        # at the ends of the unit interval the bracket is one-sided
        bad &= ~((u <= delta) & (hhi >= y - 1e-12)) & ~((u >= 1 - delta) & (hlo <= y + 1e-12))
        k = int(np.argmax(bad))
        ctx.check(not bad.any(), 'ppf.inverts-h', 'C08:not-a-root',
                  lambda: dict(where, y=y[k], v=v[k], u=u[k], h_below=hlo[k], h_above=hhi[k]))
        ctx.ok('ppf.inverts-h', len(u) - 1)
    else:
        ctx.violation('ppf.inverts-h', 'C08:h-' + exc_mech(hs), dict(exc_detail(hs), **where))
    # (b) against the mpmath reference
    rlo = arch.h_array(fam, th, np.maximum(ulo, 1e-300), v)
    rhi = arch.h_array(fam, th, np.minimum(uhi, 1 - 1e-17), v)
    slack = 1e-6 * y + 1e-8
    bad = ~((rlo <= y + slack) & (rhi >= y - slack))
    k = int(np.argmax(bad))
    ctx.check(not bad.any(), 'ppf.inverts-h-ref', 'C08:not-a-root-of-reference',
              lambda: dict(where, y=y[k], v=v[k], u=u[k], href_below=rlo[k], href_above=rhi[k]))
    ctx.ok('ppf.inverts-h-ref', len(u) - 1)
    ctx.maxstat('|h_ref(u,v) - y|', np.max(np.abs(arch.h_array(fam, th, np.clip(u, 1e-300, 1 - 1e-17), v) - y)
                                          / (1e-6 * y + 1e-8)), where)

    # y-lines: non-decreasing in y at fixed v ---------------------------------------------------
    for v0 in rng.choice(g, size=3, replace=False).tolist() + [float(rng.uniform(1e-4, 1 - 1e-4))]:
        ys = np.sort(np.concatenate([g, rng.uniform(1e-4, 1 - 1e-4, 14)]))
        ul, failed = _elementwise_ok(ctx, model, ys, np.full(len(ys), v0), where)
        fin = np.isfinite(ul)
        if fin.sum() < 2:
            continue
        du = np.diff(ul[fin])
        ctx.check(du.min() >= -1e-11, 'ppf.monotone-in-y', 'C08:not-monotone-in-y',
                  lambda: dict(where, v=v0, worst=float(du.min())))

    # element-wise: vector == singletons, also after permutation --------------------------------
    good_y, good_v = y, v
    for size in (1, 2, 13, min(60 if spec['n_rand'] < 100 else 500, len(good_y))):
        idx = rng.choice(len(good_y), size=size, replace=False)
        yy, vv = good_y[idx].copy(), good_v[idx].copy()
        # batches in which all / some V are extreme exercise batch-level shortcuts
        whole = _ppf(ctx, model, yy, vv, where, 'ppf.elementwise')
        if whole is None:
            continue
        single = np.array([np.asarray(model.percent_point(yy[i:i + 1], vv[i:i + 1]), dtype=float)[0]
                           for i in range(size)])
        perm = rng.permutation(size)
        permd = _ppf(ctx, model, yy[perm], vv[perm], where, 'ppf.elementwise')
        d1 = biv.ulps(whole, single)
        k = int(np.argmax(d1))
        ctx.check(d1[k] <= 8, 'ppf.elementwise', 'C08:element-dependence',
                  lambda: dict(where, y=yy[k], v=vv[k], in_vector=whole[k], alone=single[k], size=size))
        if permd is not None:
            d2 = biv.ulps(permd, whole[perm])
            k2 = int(np.argmax(d2))
            ctx.check(d2[k2] <= 8, 'ppf.elementwise', 'C08:order-dependence',
                      lambda: dict(where, size=size, worst_ulps=float(d2[k2])))
    # the same vectors in other containers: the i-th output belongs to the i-th ELEMENT, whatever the labels ------
    import pandas as pd
    m = min(12, len(y))
    base = _ppf(ctx, model, y[:m].copy(), v[:m].copy(), where, 'ppf.container')
    if base is not None:
        lab = rng.permutation(m)
        forms = {'list': (list(map(float, y[:m])), list(map(float, v[:m]))),
                 'series-shuffled-index': (pd.Series(y[:m], index=lab), pd.Series(v[:m], index=lab)),
                 'series-offset-index': (pd.Series(y[:m], index=np.arange(100, 100 + m)), pd.Series(v[:m], index=np.arange(100, 100 + m))),
                 'series-str-index': (pd.Series(y[:m], index=['r%d' % i for i in range(m)]), pd.Series(v[:m], index=['r%d' % i for i in range(m)])),
                 'series-and-array': (pd.Series(y[:m], index=lab[::-1]), v[:m].copy())}
        for name, (cy, cv) in forms.items():
            okc, rc = ctx.call(model.percent_point, cy, cv)
            if not okc:
                ctx.violation('ppf.container', 'C08:%s-input-%s' % (name.split('-')[0], exc_mech(rc)), dict(exc_detail(rc), container=name, **where))
                continue
            rc = np.asarray(rc, dtype=float)
            ctx.check(rc.shape == base.shape and (biv.ulps(rc, base) <= 8).all(), 'ppf.container', 'C08:output-depends-on-container-labels',
                      lambda: dict(where, container=name, got=rc[:4], as_array=base[:4]))
    al = ctx.call(model.ppf, y[:5], v[:5])
    ctx.check(al[0] and np.array_equal(np.asarray(al[1]), np.asarray(model.percent_point(y[:5], v[:5])),
                                       equal_nan=True), 'ppf.alias', 'C08:alias-differs', where)
    # instance reuse: same (y, v) asked again after the instance was re-parameterised by assignment -------------
    reused, th0 = biv.reused_model(fam, th, rng)
    ok0, _ = ctx.call(reused.percent_point, y[:20], v[:20])         # fills whatever is cached per (y, v) at theta
    reused.theta, reused.tau = float(th0), float(arch.Arch(fam, th0).tau())
    ok1, _ = ctx.call(reused.percent_point, y[:20], v[:20])
    reused.theta, reused.tau = float(th), float(arch.Arch(fam, th).tau())
    ok_r, a = ctx.call(reused.percent_point, y[:20], v[:20])
    ok_f, b = ctx.call(biv.make_model(fam, th).percent_point, y[:20], v[:20])
    if ok_r and ok_f:
        ctx.check((biv.ulps(a, b) <= 8).all(), 'instance-reuse', 'C08:ppf-depends-on-instance-history',
                  lambda: dict(where, previous_theta=th0, worst_ulps=float(np.max(biv.ulps(a, b)))))
    ctx.sample({'family': fam, 'theta': th, 'elements': int(len(y))})


def _independence(spec, ctx, rng, where):
    from copulas.bivariate.independence import Independence
    m = Independence()
    X = rng.random((50, 2))
    m.fit(X)
    y = rng.uniform(1e-4, 1 - 1e-4, 60)
    v = rng.uniform(1e-4, 1 - 1e-4, 60)
    ok, u = ctx.call(m.percent_point, y, v)
    if not ok:
        ctx.violation('ppf.independence', 'C08:independence-' + exc_mech(u), dict(exc_detail(u), **where))
        # observe the rest of the behaviour with a parameter set by hand
        m.theta = 1.0
        ok, u = ctx.call(m.percent_point, y, v)
        if not ok:
            return
    u = np.asarray(u, dtype=float)
    ctx.check(np.array_equal(u, y), 'ppf.independence', 'C08:independence-not-y', where)
    okh, h = ctx.call(m.partial_derivative, np.column_stack([u, v]))
    if okh:
        h = np.asarray(h, dtype=float)
        ctx.check(np.allclose(h, y, atol=1e-12), 'ppf.independence-inverts-h', 'C08:independence-h-not-y',
                  lambda: dict(where, y=y[:3], h=h[:3], u=u[:3], v=v[:3]))
    else:
        ctx.violation('ppf.independence-inverts-h', 'C08:independence-h-' + exc_mech(h), dict(exc_detail(h), **where))
    ctx.nontriv('independence')
