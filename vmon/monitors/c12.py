"""C12 - conditional sampling fixes the given columns and follows the conditional law."""

import itertools

import numpy as np
from scipy.special import ndtr, ndtri

from vmon import interpose, mv, stats, uni
from vmon.core import EPS32, exc_detail, exc_mech, rng_for
from vmon.refs import mvn

PROPERTY = 'C12'
RULE = ('one case per fitted model (2..6 columns, tables as in C01, fast marginal configurations) with a '
        'list of conditioning sets: all non-empty proper subsets for d<=4, 20 random subsets for d=5,6; '
        'each presented in training, reversed and shuffled key order, as dict and as Series, with values '
        'at the training median, at the 0.1%/99.9% quantiles and 5 sd outside the range; the recorded '
        'multivariate_normal(mean, cov) of every call is compared with an independent Schur-complement '
        'computation from the fitted correlation and monitor-computed normal scores (matched per column '
        'name); thorough tier adds 5000-row statistical checks; non-trivial = recorded draw compared; '
        'distinct by (model, subset, order, container, value kind)')
DECIDING = { 'cond.mean-cov-reference': 100, 'cond.fixed-columns': 100, 'cond.free-column-is-ppf-of-draw': 100,
            'cond.dict-series-same': 30, 'cond.conditions-unchanged': 100}
ASSUMPTIONS = ['recorded np.random.multivariate_normal arguments are what the sample was drawn from',
               'tolerance 1e-9 on the conditional mean/covariance (cond(S22) < 1e8)']


def cases(seed, tier):
    rng = rng_for(seed, 'C12')
    out = []
    reps = 24 if tier == 'quick' else 1500
    for r in range(reps):
        d = int(rng.integers(2, 7))
        t = mv.random_table_spec(rng, tier, d=d, n=int(rng.choice([200, 1000])))
        t['corr'] = str(rng.choice(['gram', 'equi_pos', 'equi_neg', 'block', 'identity', 'gram']))
        t['names'] = str(rng.choice(['str', 'unsorted', 'int', 'unsorted']))
        out.append({'table': t, 'config': str(rng.choice(['class', 'name', 'dict', 'dict', 'default'], p=[.3, .2, .25, .15, .1])),
                    'n_rows': 50 if tier == 'quick' else int(rng.choice([50, 7, 1])),
                    'stat': r % (3 if tier == 'quick' else 5) == 0, 'seed': int(rng.integers(1 << 31))})
    return out


def _subsets(cols, rng):
    d = len(cols)
    if d <= 4:
        subs = [list(s) for k in range(1, d) for s in itertools.combinations(range(d), k)]
    else:
        subs = []
        for _ in range(20):
            k = int(rng.integers(1, d))
            subs.append(sorted(rng.choice(d, size=k, replace=False).tolist()))
    return subs


def run_case(spec, ctx):
    import pandas as pd
    import copulas.multivariate.gaussian as gm
    t = spec['table']
    rng = rng_for(spec['seed'], 'cfg')
    df, info = mv.make_table(t)
    if spec['config'] == 'default':
        df = df.iloc[:200]
    cols = list(df.columns)
    where = {'config': spec['config'], 'corr': t['corr'], 'd': len(cols), 'marginals': t['marginals'], 'names': t['names']}
    model = mv.build_model(spec['config'], cols, rng, random_state=None)
    if spec['seed'] % 2:
        mv.give_past(model, df, rng)
        where['refitted'] = True
    np.random.seed(spec['seed'] % (2 ** 31))
    ok, exc = ctx.call(model.fit, df.copy())
    if not ok:
        ctx.violation('cond.fit', 'C12:fit-' + exc_mech(exc), dict(exc_detail(exc), **where))
        return
    S = np.asarray(model.correlation, dtype=float)
    n = spec['n_rows']
    med = df.median()
    for sub in _subsets(cols, rng):
        order = str(rng.choice(['training', 'reversed', 'shuffled']))
        idx = list(sub)
        if order == 'reversed':
            idx = idx[::-1]
        elif order == 'shuffled':
            idx = [idx[i] for i in rng.permutation(len(idx))]
        vkind = str(rng.choice(['median', 'low', 'high', 'outside', 'mixed']))
        vals = {}
        for j in idx:
            c = cols[j]
            x = df[c].to_numpy()
            k = vkind if vkind != 'mixed' else str(rng.choice(['median', 'low', 'high', 'outside']))
            vals[c] = float({'median': med[c], 'low': np.quantile(x, 0.001), 'high': np.quantile(x, 0.999),
                             'outside': x.max() + 5 * (x.std() or 1.0)}[k])
        w = dict(where, subset=[repr(cols[j]) for j in idx], order=order, values=vkind)
        results = {}
        for container in ('dict', 'Series'):
            cond = dict(vals) if container == 'dict' else pd.Series(vals)
            before = dict(cond) if container == 'dict' else (cond.copy(deep=True), list(cond.index))
            seed = int(rng.integers(1 << 30))
            model.set_random_state(seed if container == 'dict' else results.get('seed', seed))
            if container == 'dict':
                results['seed'] = seed
            wc = dict(w, container=container)
            with interpose.record_random(gm) as log:
                okc, out = ctx.call(model.sample, n, conditions=cond)
            if not okc:
                ctx.violation('cond.call', 'C12:%s-conditions-%s' % (container, exc_mech(out)), dict(exc_detail(out), **wc))
                continue
            # caller's conditions object unchanged
            if container == 'dict':
                same = cond == before and list(cond.keys()) == list(before.keys())
            else:
                same = cond.equals(before[0]) and list(cond.index) == before[1]
            ctx.check(same, 'cond.conditions-unchanged', 'C12:conditions-object-modified', wc)
            good = hasattr(out, 'columns') and list(out.columns) == cols and len(out) == n
            if not ctx.check(good, 'cond.schema', 'C12:schema', lambda: dict(wc, columns=[repr(c) for c in getattr(out, 'columns', [])],
                                                                           rows=len(out))):
                continue
            V = out.to_numpy(dtype=float)
            results[container] = V
            fixed_ok = all((V[:, j] == vals[cols[j]]).all() for j in idx)
            ctx.check(fixed_ok, 'cond.fixed-columns', 'C12:conditioned-column-not-equal-to-given-value',
                      lambda: dict(wc, given=vals, got={repr(cols[j]): V[0, j] for j in idx}))
            draws = [e for e in log if e['fn'] == 'multivariate_normal']
            uni_draws = [e for e in log if e['fn'] == 'normal']
            if len(draws) != 1 and len(uni_draws) == 1 and len(cols) - len(idx) == 1:
                # a single free column drawn with np.random.normal(loc, scale): same law, other call
                e0 = uni_draws[0]
                loc = e0['kwargs'].get('loc', e0['args'][0] if e0['args'] else 0.0)
                sc = e0['kwargs'].get('scale', e0['args'][1] if len(e0['args']) > 1 else 1.0)
                draws = [{'args': (np.atleast_1d(np.asarray(loc, dtype=float)).ravel()[:1],
                                   np.atleast_2d(np.asarray(sc, dtype=float) ** 2).reshape(1, 1)[:1, :1]),
                          'result': np.asarray(e0['result'], dtype=float).reshape(n, 1)}]
            if len(draws) != 1:
                ctx.inconclusive('cond.mean-cov-reference', 'recorded-draws-not-one-mvn-call', wc)
                continue
            mean = np.asarray(draws[0]['args'][0], dtype=float)
            cov = np.asarray(draws[0]['args'][1], dtype=float)
            Z = np.asarray(draws[0]['result'], dtype=float).reshape(n, -1)
            free = [j for j in range(len(cols)) if j not in idx]
            if not ctx.check(mean.shape == (len(free),) and cov.shape == (len(free),) * 2, 'cond.mean-cov-reference',
                             'C12:conditional-draw-dimension', lambda: dict(wc, mean_shape=list(mean.shape))):
                continue
            # reference: normal scores of the given values, per column name
            given = sorted(idx)
            z = np.array([ndtri(np.clip(float(np.ravel(model.univariates[j].cdf(np.array([vals[cols[j]]])))[0]),
                                        EPS32, 1 - EPS32)) for j in given])
            mref, cref = mvn.conditional(S, free, given, z)
            # which recorded coordinate feeds which free column: identified from the output itself
            # match matrix: M[a, k] = free column a equals its marginal's quantile of draw column k
            # (a constant column, or a marginal that is a spike at floating-point resolution,
            # matches every draw column); a perfect matching must exist
            nf = len(free)
            M = np.zeros((nf, nf), dtype=bool)
            for a, j in enumerate(free):
                u = model.univariates[j]
                ref_ppf = uni.reference_percent_point(u)
                for k in range(nf):
                    want = np.asarray(ref_ppf(ndtr(Z[:, k])), dtype=float)
                    M[a, k] = np.allclose(V[:, j], want, rtol=1e-12, atol=0, equal_nan=True)
            from scipy.optimize import linear_sum_assignment
            rows, colsk = linear_sum_assignment(~M)
            ok_perm = bool(M[rows, colsk].all())
            perm = [int(k) for k in colsk]
            ctx.check(ok_perm, 'cond.free-column-is-ppf-of-draw', 'C12:free-column-not-ppf-of-conditional-draw',
                      lambda: dict(wc, match_matrix=M.astype(int)))
            if not ok_perm:
                # ambiguity only arises for constant free columns; fall back to both natural orders
                cands = [list(range(len(free))), list(np.argsort(np.argsort([str(cols[j]) for j in free])))]
            elif M.sum() > nf and nf <= 6:
                # several perfect matchings (constant or spike columns): the recorded coordinates of
                # interchangeable columns may be listed in any order, so judge the best one
                cands = [list(p) for p in itertools.permutations(range(nf))
                         if all(M[a, p[a]] for a in range(nf))][:720]
            else:
                cands = [perm]
            best = None
            for p in cands:
                p = np.asarray(p)
                em = float(np.max(np.abs(mean[p] - mref))) if len(free) else 0.0
                ec = float(np.max(np.abs(cov[np.ix_(p, p)] - cref))) if len(free) else 0.0
                if best is None or max(em, ec) < max(best):
                    best = (em, ec)
            cond22 = np.linalg.cond(S[np.ix_(given, given)])
            tol = 1e-9 * max(1.0, cond22 / 1e4)
            ctx.check(max(best) <= tol, 'cond.mean-cov-reference', 'C12:conditional-mean-or-covariance-wrong',
                      lambda: dict(wc, mean_err=best[0], cov_err=best[1], recorded_mean=mean, reference_mean=mref,
                                   tol=tol))
            ctx.maxstat('conditional mean/cov error', max(best), wc)
            lam = np.linalg.eigvalsh((cov + cov.T) / 2) if len(free) else np.array([0.0])
            ctx.check(np.allclose(cov, cov.T, rtol=0, atol=1e-12) and lam.min() >= -1e-10 * max(1.0, cond22 / 1e4),
                      'cond.cov-psd', 'C12:conditional-covariance-not-symmetric-psd',
                      lambda: dict(wc, min_eig=float(lam.min()), asym=float(np.abs(cov - cov.T).max())))
            ctx.nontriv('%d|%r|%s|%s|%s' % (spec['seed'], sub, order, container, vkind))
        if 'dict' in results and 'Series' in results:
            ctx.check(np.array_equal(results['dict'], results['Series'], equal_nan=True), 'cond.dict-series-same',
                      'C12:dict-and-series-differ', w)
    if spec.get('stat'):
        _statistical(ctx, model, df, cols, S, rng, where)
    ctx.sample({'table': t, 'config': spec['config'], 'n_rows': n})


def _statistical(ctx, model, df, cols, S, rng, where):
    """5000 rows: mean and covariance of the back-transformed normal scores of the free columns."""
    d = len(cols)
    k = d - 1 if rng.random() < 0.5 else int(rng.integers(1, d))      # all-but-one column is its own code path
    given = sorted(rng.choice(d, size=k, replace=False).tolist())
    free = [j for j in range(d) if j not in given]
    if any(df[cols[j]].nunique() < 50 for j in range(d)):
        return
    vals = {cols[j]: float(np.quantile(df[cols[j]], rng.uniform(0.1, 0.9))) for j in given}
    model.set_random_state(int(rng.integers(1 << 30)))
    N = 3000
    ok, out = ctx.call(model.sample, N, conditions=vals)
    if not ok:
        return
    z = np.array([ndtri(np.clip(float(np.ravel(model.univariates[j].cdf(np.array([vals[cols[j]]])))[0]), EPS32, 1 - EPS32))
                  for j in given])
    mref, cref = mvn.conditional(S, free, given, z)
    Zs = np.column_stack([ndtri(np.clip(np.asarray(model.univariates[j].cdf(out[cols[j]].to_numpy()), dtype=float),
                                        EPS32, 1 - EPS32)) for j in free])
    # each standardised coordinate is N(0,1): compare its empirical CDF with Phi by DKW
    sd = np.sqrt(np.clip(np.diag(cref), 1e-12, None))
    eps = stats.dkw_eps(N)
    for a in range(len(free)):
        if S[free[a], free[a]] < 0.5:
            # a marginal whose scipy MLE diverged maps every training value to the same probability: the column
            # has latent variance ~0 (C01's finding F31) and its normal scores cannot be recovered from samples
            ctx.note('statistical layer skipped for a column with degenerate normal scores')
            continue
        # the back-transform needs an invertible fitted marginal: a law with an atom at floating-point resolution
        # (GammaUnivariate with a = 0.015 forced on log-laplace data puts 60 % of its mass on one double) is skipped
        qg = np.linspace(0.02, 0.98, 25)
        uj = model.univariates[free[a]]
        okr, back = ctx.call(lambda: np.asarray(uj.cdf(np.asarray(uj.percent_point(qg), dtype=float)), dtype=float))
        if not okr or not np.allclose(back, qg, rtol=0, atol=1e-6):
            ctx.note('statistical layer skipped for a column whose fitted marginal is not invertible at fp resolution')
            continue
        std = (Zs[:, a] - mref[a]) / sd[a]
        dks = stats.ks_distance(std, ndtr)
        ctx.check(dks <= eps + 1e-3, 'cond.statistical', 'C12:conditional-law-off',
                  lambda: dict(where, free=repr(cols[free[a]]), ks=dks, band=eps))
        ctx.maxstat('conditional coordinate KS / band', dks / eps, where)
