"""C20 - library calls never modify caller-owned inputs; plots show exactly the data."""

import hashlib

import numpy as np

from vmon import biv, fingerprint as fpr, mv, uni, vines
from vmon.core import exc_detail, exc_mech, rng_for
from vmon.refs import arch, samplers

PROPERTY = 'C20'
RULE = ('one case per (entry-point group, seed): every public entry point (fit / pdf / cdf / percent_point / '
        'log-density / sample with conditions of the univariate, bivariate, Gaussian and vine models, '
        'select_copula, Tree.fit, bisect, chandrupatla, the plot helpers, get_instance) is called with each '
        'container its signature admits (ndarray C-order / F-order / non-contiguous view / read-only, '
        'DataFrame, Series, dict, list); a deep digest (bytes, dtype, shape, flags, labels, nested '
        'containers) of every argument is taken before and compared after the call (return or raise), and '
        'the call is repeated with the SAME argument objects and must give the same result; figures are '
        'decoded trace by trace and compared as multisets of points with the given rows; non-trivial = the '
        'call completed and digests were compared; distinct by (entry point, container, seed)')
DECIDING = {'args.unchanged': 300, 'reuse.same-result': 150, 'plot.points-are-the-rows': 16,
            'args.unchanged(any workload)': 200}
ASSUMPTIONS = ['a read-only array that makes a call raise is a violation only if the same call on a writeable copy '
               'succeeds and leaves the copy modified', 'plotly figure traces carry the plotted points in x/y/z']


def digest(obj, depth=0):
    """Deep, order-sensitive digest of an argument."""
    import pandas as pd
    h = hashlib.sha1()
    if depth > 5:
        h.update(repr(type(obj)).encode())
    elif isinstance(obj, np.ndarray):
        h.update(b'nd')
        h.update(str((obj.dtype, obj.shape, obj.flags.writeable, obj.strides)).encode())
        h.update(np.ascontiguousarray(obj).tobytes() if obj.dtype != object else repr(obj.tolist()).encode())
    elif isinstance(obj, pd.DataFrame):
        h.update(b'df')
        h.update(repr(list(obj.columns)).encode() + repr(list(obj.index)).encode() + repr(list(obj.dtypes)).encode())
        for c in obj.columns:
            h.update(digest(obj[c].to_numpy(), depth + 1).encode())
    elif isinstance(obj, pd.Series):
        h.update(b'se')
        h.update(repr(list(obj.index)).encode() + repr(obj.dtype).encode() + repr(obj.name).encode())
        h.update(digest(obj.to_numpy(), depth + 1).encode())
    elif isinstance(obj, dict):
        h.update(b'di')
        for k, v in obj.items():
            h.update(repr(k).encode() + digest(v, depth + 1).encode())
    elif isinstance(obj, (list, tuple)):
        h.update(b'li' + str(len(obj)).encode())
        for v in obj:
            h.update(digest(v, depth + 1).encode())
    else:
        h.update(repr(obj)[:200].encode() if isinstance(obj, (int, float, str, bool, type(None), np.generic)) else
                 repr(type(obj)).encode())
    return h.hexdigest()


def variants(a, rng, kinds=('C', 'F', 'view', 'readonly')):
    """Array containers with the same values."""
    a = np.asarray(a, dtype=float)
    out = {}
    if 'C' in kinds:
        out['ndarray-C'] = np.ascontiguousarray(a).copy()
    if 'F' in kinds and a.ndim == 2:
        out['ndarray-F'] = np.asfortranarray(a).copy()
    if 'view' in kinds:
        big = np.repeat(a, 2, axis=0)
        big[1::2] = rng.random(big[1::2].shape)
        out['ndarray-view'] = big[::2]
    if 'readonly' in kinds:
        r = a.copy()
        r.setflags(write=False)
        out['ndarray-readonly'] = r
    return out


class Guard:
    def __init__(self, ctx):
        self.ctx = ctx

    def call(self, name, container, fn, args, kwargs=None, reseed=None, compare=True, rebuild=None):
        """Call fn(*args, **kwargs) under the argument-snapshot contract.  Returns (ok, result)."""
        ctx = self.ctx
        kwargs = kwargs or {}
        where = {'entry': name, 'container': container}
        before = [digest(a) for a in args] + [digest(v) for v in kwargs.values()]
        if reseed:
            reseed()
        ok, res = ctx.call(fn, *args, **kwargs)
        after = [digest(a) for a in args] + [digest(v) for v in kwargs.values()]
        changed = [i for i, (x, y) in enumerate(zip(before, after)) if x != y]
        if not ok and 'readonly' in container:
            # does the call need to write?  retry on writeable copies of the same values
            if rebuild is not None:
                wargs, wkwargs = rebuild()
                b2 = [digest(a) for a in wargs] + [digest(v) for v in wkwargs.values()]
                if reseed:
                    reseed()
                ok2, res2 = ctx.call(fn, *wargs, **wkwargs)
                a2 = [digest(a) for a in wargs] + [digest(v) for v in wkwargs.values()]
                if ok2 and a2 != b2:
                    ctx.violation('args.unchanged', 'C20:%s-writes-into-its-input' % name,
                                  dict(where, revealed_by='read-only array raised ' + type(res).__name__))
                else:
                    ctx.note('refuses a read-only input it does not modify: %s' % name)
            return False, res
        ctx.check(not changed, 'args.unchanged', 'C20:%s-modifies-argument' % name,
                  lambda: dict(where, arguments_changed=changed, raised=None if ok else type(res).__name__))
        if not ok:
            return False, res
        if compare and not changed:
            if reseed:
                reseed()
            ok2, res2 = ctx.call(fn, *args, **kwargs)
            if not ok2:
                ctx.violation('reuse.same-result', 'C20:%s-second-call-with-same-arguments-%s' % (name, exc_mech(res2)),
                              dict(exc_detail(res2), **where))
            else:
                same, at = fpr.deep_equal(_plain(res), _plain(res2))
                ctx.check(same, 'reuse.same-result', 'C20:%s-second-call-with-same-arguments-differs' % name,
                          lambda: dict(where, at=at))
        ctx.nontriv('%s|%s|%s' % (name, container, ctx.case_index))
        return True, res


def _plain(res):
    if hasattr(res, 'to_plotly_json'):
        return _traces(res)
    if hasattr(res, 'to_dict') and not hasattr(res, 'to_numpy') and not isinstance(res, dict):
        try:
            return res.to_dict()
        except Exception:  # noqa: BLE001
            return repr(type(res))
    return res


FOREIGN = ('c01', 'c02', 'c03', 'c04', 'c05', 'c09', 'c10', 'c11', 'c12', 'c13', 'c14', 'c16', 'c17', 'c18', 'c19')


def setup_worker(ctx):
    # the always-on snapshot probe: every public entry point, whatever workload drives it
    from vmon import snapshot
    ctx.note('entry points wrapped by the always-on snapshot probe', snapshot.attach_all())


def cases(seed, tier):
    rng = rng_for(seed, 'C20')
    out = []
    # other properties' workloads replayed under the always-on snapshot probe
    per = 2 if tier == 'quick' else 100
    for mon in FOREIGN:
        for r in range(per):
            out.append({'group': 'foreign', 'monitor': mon, 'fseed': int(rng.integers(1 << 20)),
                        'index': int(rng.integers(1 << 20)), 'seed': int(rng.integers(1 << 31))})
    # the repository's own tests (quick: tests/unit, thorough: all) as one more workload under the same probe
    out.append({'group': 'repo-tests', 'tier': tier, 'seed': 0})
    groups = ['univariate', 'bivariate', 'gaussian', 'vine', 'optimize', 'plots', 'misc']
    reps = 3 if tier == 'quick' else 150
    for r in range(reps):
        for g in groups:
            out.append({'group': g, 'seed': int(rng.integers(1 << 31))})
        for name in uni.CLASSES:
            out.append({'group': 'univariate', 'cls': name, 'seed': int(rng.integers(1 << 31))})
    # every constructor-option set of the univariate classes at least once per run
    for i, ms in enumerate(uni.model_specs(rng, 'quick')):
        if ms.get('kwargs'):
            out.append({'group': 'univariate', 'cls': ms['cls'], 'spec_index': i, 'seed': int(rng.integers(1 << 31))})
    return out


def _univariate(spec, ctx, g, rng):
    import pandas as pd
    names = [spec['cls']] if 'cls' in spec else [str(rng.choice(uni.CLASSES))]
    for name in names:
        data = uni.make_data({'kind': str(rng.choice(['normal', 'skewed', 'beta', 'ties'])), 'n': 80,
                              'seed': int(rng.integers(1 << 30))})
        conts = dict(variants(data, rng, ('C', 'view', 'readonly')))
        conts['Series'] = pd.Series(data.copy(), index=np.arange(len(data))[::-1])
        model = None
        # constructor options as well as defaults (a sub-sampling or resampling option touches the data differently)
        optioned = [ms for ms in uni.model_specs(rng, 'quick') if ms['cls'] == name and ms.get('kwargs')]
        for ci, (cname, X) in enumerate(conts.items()):
            if 'spec_index' in spec or (optioned and (ci + spec['seed']) % 2):
                ms = uni.model_specs(rng, 'quick')[spec['spec_index']] if 'spec_index' in spec else optioned[int(rng.integers(len(optioned)))]
                m = uni.build(ms, data)
                cname = cname + '|' + repr(ms.get('kwargs'))[:60]
            else:
                m = uni.klass(name)()

            def reseed():
                np.random.seed(5)
            ok, _ = g.call(name + '.fit', cname, m.fit, (X,), reseed=reseed, compare=False,
                           rebuild=lambda: ((np.array(data),), {}))
            if ok:
                model = m
        if model is None:
            continue
        x = np.quantile(data, [0.1, 0.5, 0.9, 0.99])
        q = np.array([0.01, 0.5, 0.99])
        for meth, base in (('probability_density', x), ('cumulative_distribution', x), ('log_probability_density', x),
                           ('percent_point', q)):
            for cname, A in variants(base, rng, ('C', 'view', 'readonly')).items():
                g.call('%s.%s' % (name, meth), cname, getattr(model, meth), (A,),
                       rebuild=lambda base=base: ((np.array(base),), {}))


def _bivariate(spec, ctx, g, rng):
    from copulas.bivariate import select_copula
    fam = str(rng.choice(biv.FAMILIES))
    th = float(arch.theta_from_tau(fam, rng.uniform(0.2, 0.7)))
    X = samplers.SAMPLERS[fam](th, 150, rng)
    # rows on and next to the boundary of the unit square: an in-place "sanitising" of the input
    # (clipping, replacing 0/1) only shows on such values
    X[:6] = [[0.0, 0.3], [1.0, 0.7], [0.4, 0.0], [0.6, 1.0], [1e-12, 0.5], [0.5, 1 - 1e-12]]
    model = None
    for cname, A in variants(X, rng).items():
        m = biv.cls(fam)()
        ok, _ = g.call(fam + '.fit', cname, m.fit, (A,), compare=False, rebuild=lambda: ((X.copy(),), {}))
        if ok:
            model = m
        g.call('select_copula', cname, select_copula, (A,), rebuild=lambda: ((X.copy(),), {}))
    if model is None:
        return
    P = X[:12]
    for meth in ('probability_density', 'cumulative_distribution', 'partial_derivative', 'log_probability_density'):
        for cname, A in variants(P, rng).items():
            g.call('%s.%s' % (fam, meth), cname, getattr(model, meth), (A,), rebuild=lambda: ((P.copy(),), {}))
    y, v = P[:, 0].copy(), P[:, 1].copy()
    for cname in ('ndarray-C', 'ndarray-view', 'ndarray-readonly'):
        ya, va = variants(y, rng)[cname], variants(v, rng)[cname]
        g.call(fam + '.percent_point', cname, model.percent_point, (ya, va), rebuild=lambda: ((y.copy(), v.copy()), {}))


def _gaussian(spec, ctx, g, rng):
    import pandas as pd
    from copulas.multivariate import GaussianMultivariate
    import copulas.univariate as cu
    t = mv.random_table_spec(rng, 'quick', d=3, n=120, marg_pool=['normal', 'gamma', 'beta', 'uniform', 'constant'])
    t['names'] = 'str'
    df, _ = mv.make_table(t)
    class Refuses:
        def __init__(self, *a, **k):
            pass

        def fit(self, X):
            raise ValueError('cannot be fitted')
    dist = {df.columns[0]: cu.BetaUnivariate, df.columns[1]: Refuses, 'unused': cu.GammaUnivariate}
    models = {}
    for cname, arg, d_arg in (('DataFrame', df.copy(), cu.GaussianUnivariate), ('DataFrame+dict', df.copy(), dist),
                              ('ndarray-readonly', variants(df.to_numpy(), rng)['ndarray-readonly'], cu.GaussianUnivariate),
                              ('ndarray-F', np.asfortranarray(df.to_numpy()), cu.GaussianUnivariate)):
        m = GaussianMultivariate(distribution=d_arg, random_state=3)
        before_dist = digest(d_arg) if isinstance(d_arg, dict) else None
        ok, _ = g.call('GaussianMultivariate.fit', cname, m.fit, (arg,), compare=False,
                       rebuild=lambda: ((df.to_numpy().copy(),), {}))
        if isinstance(d_arg, dict):
            ctx.check(digest(d_arg) == before_dist, 'args.unchanged', 'C20:GaussianMultivariate-modifies-distribution-dict',
                      {'entry': 'GaussianMultivariate.fit', 'container': 'dict'})
        if ok:
            models[cname] = m
    m = models.get('DataFrame')
    if m is None:
        return
    Q = df.iloc[:6]
    for meth in ('probability_density', 'log_probability_density', 'cumulative_distribution'):
        noisy = meth == 'cumulative_distribution'
        for cname, A in (('DataFrame', Q.copy()), ('DataFrame-permuted', Q[list(Q.columns[::-1])].copy()),
                         ('Series', Q.iloc[0].copy()), ('ndarray-readonly', variants(Q.to_numpy(), rng)['ndarray-readonly']),
                         ('ndarray-view', variants(Q.to_numpy(), rng)['ndarray-view'])):
            g.call('GaussianMultivariate.' + meth, cname, getattr(m, meth), (A,), compare=not noisy,
                   rebuild=lambda: ((Q.to_numpy().copy(),), {}))
    c0, c1 = df.columns[0], df.columns[2]
    vals = {c1: float(df[c1].iloc[1]), c0: float(df[c0].iloc[0])}
    for cname, cond in (('dict', dict(vals)), ('Series', pd.Series(vals)), ('dict-one', {c0: vals[c0]})):
        g.call('GaussianMultivariate.sample(conditions)', cname, m.sample, (5,), {'conditions': cond},
               reseed=lambda: m.set_random_state(11))


def _vine(spec, ctx, g, rng):
    import copulas.multivariate.tree as tree_mod
    from copulas.multivariate import VineCopula
    d = int(rng.integers(3, 5))
    df = vines.make_table({'d': d, 'n': 70, 'pattern': 'gram', 'perm': list(range(d)), 'seed': spec['seed']})
    vt = str(rng.choice(['center', 'direct', 'regular']))
    m = VineCopula(vt, random_state=4)
    ok, _ = g.call('VineCopula(%s).fit' % vt, 'DataFrame', m.fit, (df,), compare=False)
    if ok:
        u = rng.uniform(0.1, 0.9, size=(1, d))
        for cname, A in variants(u, rng, ('C', 'readonly')).items():
            g.call('VineCopula.get_likelihood', cname, m.get_likelihood, (A,), rebuild=lambda: ((u.copy(),), {}))
        # Tree.fit is public too: it receives the caller's tau matrix and pseudo-observation matrix
        tau = df.corr(method='kendall').to_numpy()
        for cname, T in variants(tau, rng, ('C', 'readonly')).items():
            for tt in ('center', 'direct', 'regular'):
                tree = tree_mod.get_tree(tt)
                um = np.array(m.u_matrix)
                g.call('Tree(%s).fit' % tt, cname, tree.fit, (0, d, T, um), compare=False,
                       rebuild=lambda: ((0, d, tau.copy(), np.array(m.u_matrix)), {}))


def _optimize(spec, ctx, g, rng):
    from copulas import optimize
    n = int(rng.choice([1, 5, 40]))
    root = rng.uniform(0.2, 0.8, n)

    def f(x):
        return (np.asarray(x) - root) ** 3
    for solver in ('bisect', 'chandrupatla'):
        for cname in ('ndarray-C', 'ndarray-readonly', 'ndarray-view'):
            lo = variants(np.zeros(n), rng, ('C', 'view', 'readonly'))[cname]
            hi = variants(np.ones(n), rng, ('C', 'view', 'readonly'))[cname]
            g.call('optimize.' + solver, cname, getattr(optimize, solver), (f, lo, hi),
                   rebuild=lambda: ((f, np.zeros(n), np.ones(n)), {}))


def _traces(fig):
    out = {}
    for tr in fig.data:
        pts = [np.asarray(getattr(tr, ax), dtype=float) for ax in ('x', 'y', 'z') if getattr(tr, ax, None) is not None]
        out.setdefault(tr.name, []).append(np.column_stack(pts) if pts else np.zeros((0, 0)))
    return {k: np.vstack(v) for k, v in out.items()}


def _rows_equal(a, b):
    if a.shape != b.shape:
        return False
    ka = np.lexsort(a.T[::-1])
    kb = np.lexsort(b.T[::-1])
    return np.array_equal(a[ka], b[kb])


def _plots(spec, ctx, g, rng):
    import pandas as pd
    from copulas import visualization as vz
    n1, n2 = int(rng.integers(5, 60)), int(rng.integers(5, 60))
    cols = ['a', 'b', 'c', 'd']
    real = pd.DataFrame(rng.normal(size=(n1, 4)), columns=cols)
    synth = pd.DataFrame(rng.normal(size=(n2, 4)) + 1, columns=cols)
    real.iloc[0] = real.iloc[1]            # duplicated rows must be shown twice
    hostile = int(rng.integers(3))
    for dim, single, both in ((2, vz.scatter_2d, vz.compare_2d), (3, vz.scatter_3d, vz.compare_3d)):
        pick = [str(c) for c in rng.choice(cols, size=dim, replace=False)]
        rest = [c for c in cols if c not in pick]
        real_d, synth_d = real.copy(), synth.copy()
        if hostile == 1:
            # missing values in a column that is NOT plotted must not hide rows
            real_d.loc[real_d.index[::3], rest[0]] = np.nan
        elif hostile == 2:
            # the synthetic table lacks a column the real one has (not one of the plotted ones)
            synth_d = synth_d.drop(columns=[rest[0]])
        for label, columns, r, s in (('columns=list', list(pick), real_d, synth_d),
                                     ('columns=None', None, real[pick], synth[pick])):
            where = {'dim': dim, 'columns': label}
            ok, fig = g.call('visualization.scatter_%dd' % dim, label, single, (r,), {'columns': columns}, compare=True)
            if ok:
                tr = _traces(fig)
                ctx.check(set(tr) == {'Real'} and _rows_equal(tr['Real'], r[pick].to_numpy()), 'plot.points-are-the-rows',
                          'C20:scatter-figure-does-not-show-exactly-the-rows',
                          lambda: dict(where, traces={k: list(v.shape) for k, v in tr.items()}, rows=len(r)))
            ok, fig = g.call('visualization.compare_%dd' % dim, label, both, (r, s), {'columns': columns}, compare=True)
            if ok:
                tr = _traces(fig)
                good = set(tr) == {'Real', 'Synthetic'} and _rows_equal(tr['Real'], r[pick].to_numpy()) and \
                    _rows_equal(tr['Synthetic'], s[pick].to_numpy())
                ctx.check(good, 'plot.points-are-the-rows', 'C20:compare-figure-does-not-show-exactly-the-rows',
                          lambda: dict(where, traces={k: list(v.shape) for k, v in tr.items()}, rows=[len(r), len(s)]))
    # 1-d helpers: inputs untouched
    g.call('visualization.dist_1d', 'Series', vz.dist_1d, (real['a'],), compare=False)
    g.call('visualization.dist_1d', 'DataFrame', vz.dist_1d, (real[['a']],), compare=False)
    g.call('visualization.compare_1d', 'Series', vz.compare_1d, (real['a'], synth['a']), compare=False)


def _misc(spec, ctx, g, rng):
    import copulas.univariate as cu
    from copulas.utils import get_instance
    from copulas import datasets
    kw = {'bw_method': 0.3}
    g.call('get_instance', 'kwargs-dict', get_instance, (cu.GaussianKDE,), kw, compare=False)
    proto = cu.Univariate(candidates=[cu.GaussianUnivariate, cu.BetaUnivariate])
    before = digest(proto.candidates)
    ok, inst = g.call('get_instance', 'instance', get_instance, (proto,), compare=False)
    if ok:
        inst.candidates.append('x')
        ctx.check(digest(proto.candidates) == before, 'args.unchanged', 'C20:get_instance-shares-candidate-list-with-prototype',
                  {'entry': 'get_instance'})
    for name in [n for n in dir(datasets) if n.startswith('sample_')][:4]:
        g.call('datasets.' + name, 'ints', getattr(datasets, name), (int(rng.integers(1, 30)), int(rng.integers(1000))))


def _foreign(spec, ctx):
    import importlib
    from vmon import snapshot
    from vmon.core import Ctx
    mod = importlib.import_module('vmon.monitors.' + spec['monitor'])
    specs = mod.cases(spec['fseed'], 'quick')
    sub = specs[spec['index'] % len(specs)]
    snapshot.drain()
    scratch = Ctx(mod.PROPERTY, 'quick', spec['fseed'])
    scratch.spec, scratch.case_index = sub, 0
    try:
        mod.run_case(sub, scratch)          # its own oracle's verdicts are not this property's business
    except Exception:   # noqa: BLE001
        ctx.note('foreign workload raised (ignored here)')
    evs, calls = snapshot.drain()
    for name, changed, raised in evs:
        ctx.violation('args.unchanged(any workload)', 'C20:%s-modifies-argument' % name,
                      {'entry': name, 'arguments_changed': [str(c) for c in changed], 'raised': raised,
                       'driven_by': spec['monitor'], 'case': sub if len(repr(sub)) < 600 else repr(sub)[:600]})
    ctx.ok('args.unchanged(any workload)', calls)
    if calls:
        ctx.nontriv('foreign|%s|%d|%d' % (spec['monitor'], spec['fseed'], spec['index']))
    ctx.distinct('foreign workloads watched', spec['monitor'])


def _repo_tests(spec, ctx):
    from vmon import pytest_probe
    res = pytest_probe.run_repo_tests(spec['tier'], 'c20')
    if res is None or not res.get('calls'):
        ctx.note('repository tests under the snapshot probe: nothing observed (not judged)')
        return
    for name, changed, raised in res['argument_events']:
        ctx.violation('args.unchanged(repository tests)', 'C20:%s-modifies-argument' % name,
                      {'entry': name, 'arguments_changed': changed, 'raised': raised, 'driven_by': 'repository test suite'})
    ctx.ok('args.unchanged(repository tests)', res['calls'])
    ctx.note('repository tests under the snapshot probe: top-level calls observed', res['calls'])
    ctx.nontriv('repo-tests|%s' % spec['tier'])


def run_case(spec, ctx):
    if spec['group'] == 'foreign':
        return _foreign(spec, ctx)
    if spec['group'] == 'repo-tests':
        return _repo_tests(spec, ctx)
    rng = rng_for(spec['seed'], 'c20')
    g = Guard(ctx)
    {'univariate': _univariate, 'bivariate': _bivariate, 'gaussian': _gaussian, 'vine': _vine, 'optimize': _optimize,
     'plots': _plots, 'misc': _misc}[spec['group']](spec, ctx, g, rng)
    ctx.sample({'group': spec['group'], 'cls': spec.get('cls')})
