"""C06 - Clayton, Frank and Gumbel CDFs are genuine Archimedean copulas.

Probe: every call of <Family>.cumulative_distribution / cdf / generator made by the workload
on the real classes.  Oracles: copula axioms, the mpmath generator reference, generator
identity, theta ordering, row independence.
"""

import numpy as np

from vmon import biv
from vmon.core import EPS32, exc_detail, exc_mech, rng_for
from vmon.refs import arch

PROPERTY = 'C06'
RULE = ('one case per (family, theta): theta from the fixed boundary grid of each family plus '
        'seeded random theta in the supported range (|tau|<=0.8); per case the 16x16 boundary '
        'grid, random/corner/boundary points, random rectangles (incl. 1e-12 thin and '
        'boundary-hugging), random batch recompositions; a case is non-trivial when the CDF '
        'returned finite values on the full grid and the reference comparison ran; distinct by '
        '(family, theta)')
DECIDING = {'cdf.reference': 500, 'cdf.2-increasing': 500, 'cdf.row-independence': 20,
            'generator.identity': 100}
ASSUMPTIONS = ['mpmath 50-digit evaluation of psi_inv(psi(u)+psi(v)) is exact to double precision',
               'tolerance EPS32=1.19e-7 on probabilities (the library\'s own EPSILON)']


def cases(seed, tier):
    rng = rng_for(seed, 'C06')
    n_rand = 6 if tier == 'quick' else 2500
    out = []
    for fam in biv.FAMILIES:
        thetas = biv.theta_list(fam, n_rand, rng)
        for i, th in enumerate(thetas):
            other = thetas[(i + 1) % len(thetas)] if rng.random() < 0.5 else biv.random_theta(fam, rng)
            out.append({'family': fam, 'theta': th, 'theta2': other,
                        'n_ref': 60 if tier == 'quick' else 250,
                        'n_rect': 200 if tier == 'quick' else 1500,
                        'seed': int(rng.integers(1 << 31))})
    return out


def _cdf(ctx, model, X, where):
    ok, res = ctx.call(model.cumulative_distribution, X)
    if not ok:
        ctx.violation('cdf.call', 'C06:' + exc_mech(res), dict(exc_detail(res), **where))
        return None
    res = np.asarray(res, dtype=float)
    if res.shape != (len(X),):
        ctx.violation('cdf.call', 'C06:shape', dict(where, shape=list(res.shape), n=len(X)))
        return None
    return res


def run_case(spec, ctx):
    fam, th = spec['family'], spec['theta']
    rng = rng_for(spec['seed'])
    where = {'family': fam, 'theta': th}
    model = biv.make_model(fam, th)
    ref = arch.Arch(fam, th)

    # 1. boundary grid ----------------------------------------------------------------
    g = biv.GRID16
    U, V = np.meshgrid(g, g, indexing='ij')
    X = np.column_stack([U.ravel(), V.ravel()])
    C = _cdf(ctx, model, X, where)
    if C is None:
        return
    if not ctx.check(np.isfinite(C).all(), 'cdf.finite', 'C06:nonfinite',
                     lambda: dict(where, at=X[~np.isfinite(C)][:3])):
        return
    Cg = C.reshape(16, 16)
    zero = (X[:, 0] == 0) | (X[:, 1] == 0)
    ctx.check((C[zero] == 0).all(), 'cdf.grounded', 'C06:grounded',
              lambda: dict(where, at=X[zero][C[zero] != 0][:3], got=C[zero][C[zero] != 0][:3]))
    m1 = np.abs(Cg[:, -1] - g)
    m2 = np.abs(Cg[-1, :] - g)
    ctx.check(max(m1.max(), m2.max()) <= EPS32, 'cdf.margins', 'C06:margin',
              lambda: dict(where, worst=float(max(m1.max(), m2.max()))))
    ctx.maxstat('margin residual', max(m1.max(), m2.max()), where)
    lo = np.maximum(X[:, 0] + X[:, 1] - 1, 0) - EPS32
    hi = np.minimum(X[:, 0], X[:, 1]) + EPS32
    bad = (C < lo) | (C > hi)
    ctx.check(not bad.any(), 'cdf.frechet', 'C06:frechet',
              lambda: dict(where, at=X[bad][:3], got=C[bad][:3]))
    sym = np.abs(Cg - Cg.T)
    ctx.check(sym.max() <= 1e-12, 'cdf.symmetry', 'C06:symmetry',
              lambda: dict(where, worst=float(sym.max())))
    vol = Cg[1:, 1:] - Cg[1:, :-1] - Cg[:-1, 1:] + Cg[:-1, :-1]
    ctx.check(vol.min() >= -4 * EPS32, 'cdf.2-increasing', 'C06:2-increasing',
              lambda: dict(where, worst=float(vol.min()), kind='grid-cell'))
    ctx.ok('cdf.2-increasing', vol.size - 1)
    ctx.maxstat('most negative C-volume', -vol.min(), where)

    # 2. random rectangles ---------------------------------------------------------------
    n = spec['n_rect']
    A = biv.mixed_points(rng, n)
    kind = rng.integers(0, 3, size=n)
    w = np.where(kind == 0, rng.random(n) * 0.5, np.where(kind == 1, 1e-12, 10 ** rng.uniform(-9, -1, n)))
    hgt = np.where(rng.random(n) < 0.5, w, rng.random(n) * 0.3)
    u1 = A[:, 0]
    v1 = A[:, 1]
    u2 = np.minimum(u1 + w, 1.0)
    v2 = np.minimum(v1 + hgt, 1.0)
    R = np.vstack([np.column_stack([u2, v2]), np.column_stack([u2, v1]),
                   np.column_stack([u1, v2]), np.column_stack([u1, v1])])
    CR = _cdf(ctx, model, R, where)
    if CR is None:
        return
    volr = CR[:n] - CR[n:2 * n] - CR[2 * n:3 * n] + CR[3 * n:]
    worst = int(np.argmin(volr)) if np.isfinite(volr).all() else int(np.argmax(~np.isfinite(volr)))
    ctx.check(np.isfinite(volr).all() and volr.min() >= -4 * EPS32, 'cdf.2-increasing',
              'C06:2-increasing',
              lambda: dict(where, worst=float(volr[worst]), kind='rectangle',
                           rect=[u1[worst], u2[worst], v1[worst], v2[worst]]))
    ctx.ok('cdf.2-increasing', n - 1)
    if np.isfinite(volr).all():
        ctx.maxstat('most negative C-volume', -volr.min(), where)
    lo = np.maximum(R[:, 0] + R[:, 1] - 1, 0) - EPS32
    hi = np.minimum(R[:, 0], R[:, 1]) + EPS32
    bad = ~((CR >= lo) & (CR <= hi))
    ctx.check(not bad.any(), 'cdf.frechet', 'C06:frechet',
              lambda: dict(where, at=R[bad][:3], got=CR[bad][:3]))

    # 3. reference -----------------------------------------------------------------------
    P = np.vstack([biv.mixed_points(rng, spec['n_ref']),
                   X[rng.choice(len(X), size=40, replace=False)]])
    CP = _cdf(ctx, model, P, where)
    if CP is None:
        return
    Cref = arch.cdf_array(fam, th, P[:, 0], P[:, 1])
    d = np.abs(CP - Cref)
    d = np.where(np.isnan(d), np.inf, d)
    k = int(np.argmax(d))
    ctx.check(d[k] <= EPS32, 'cdf.reference', 'C06:ref-mismatch',
              lambda: dict(where, at=P[k], got=CP[k], ref=Cref[k]))
    ctx.ok('cdf.reference', len(P) - 1)
    ctx.maxstat('|C - C_ref|', d[k], dict(where, at=P[k].tolist()))
    ctx.nontriv('%s|%r' % (fam, th))

    # 4. generator identity -----------------------------------------------------------------
    Q = rng.uniform(0.01, 0.99, size=(120, 2))
    CQ = _cdf(ctx, model, Q, where)
    okg, res = ctx.call(lambda: (model.generator(CQ), model.generator(Q[:, 0]),
                                  model.generator(Q[:, 1]), model.generator(np.array([1.0])),
                                  model.generator(np.linspace(0.01, 1.0, 200))))
    if not okg:
        ctx.violation('generator.call', 'C06:generator-' + exc_mech(res), dict(exc_detail(res), **where))
    else:
        gc, gu, gv, g1, gl = [np.asarray(r, dtype=float) for r in res]
        rel = np.abs(gc - (gu + gv)) / (np.abs(gu + gv) + 1e-300)
        rel = np.where(np.isnan(rel), np.inf, rel)
        k = int(np.argmax(rel))
        ctx.check(rel[k] <= 1e-6, 'generator.identity', 'C06:generator-identity',
                  lambda: dict(where, at=Q[k], psiC=gc[k], psiu=gu[k], psiv=gv[k]))
        ctx.ok('generator.identity', len(Q) - 1)
        ctx.maxstat('generator identity rel. residual', rel[k], where)
        ctx.check(abs(g1[0]) <= 1e-12, 'generator.at-1', 'C06:generator-at-1',
                  lambda: dict(where, got=g1[0]))
        dg = np.diff(gl)
        ctx.check(np.isfinite(gl).all() and (dg <= 1e-12 * np.abs(gl[:-1])).all() and (gl >= -1e-12).all(),
                  'generator.decreasing', 'C06:generator-monotone',
                  lambda: dict(where, worst=float(np.nanmax(dg))))

    # 5. theta ordering ---------------------------------------------------------------------
    th2 = spec['theta2']
    if th2 != th:
        m2 = biv.make_model(fam, th2)
        C2 = _cdf(ctx, m2, P, dict(where, theta=th2))
        if C2 is not None:
            hi_, lo_ = (C2, CP) if th2 > th else (CP, C2)
            gap = lo_ - hi_
            gap = np.where(np.isnan(gap), np.inf, gap)
            k = int(np.argmax(gap))
            ctx.check(gap[k] <= EPS32, 'cdf.theta-order', 'C06:theta-order',
                      lambda: dict(where, theta2=th2, at=P[k], c1=CP[k], c2=C2[k]))
            ctx.maxstat('theta-order inversion', gap[k], dict(where, theta2=th2))

    # 6. row independence -------------------------------------------------------------------
    B = biv.mixed_points(rng, 48 if spec['n_ref'] < 200 else 1000)
    # batch compositions that exercise batch-level shortcuts: all-boundary, mixed, permuted
    compos = [B, B[rng.permutation(len(B))][:7],
              np.column_stack([rng.random(5), np.zeros(5)]),
              np.column_stack([np.zeros(5), rng.random(5)]),
              np.vstack([np.column_stack([rng.random(3), np.zeros(3)]), rng.random((3, 2))]),
              np.vstack([np.column_stack([np.zeros(2), rng.random(2)]), rng.random((2, 2))]),
              np.vstack([np.ones((1, 2)), rng.random((2, 2)), np.zeros((1, 2))]),
              # the smallest batches: n = 1, 2, 3 (an (n, 2) array with n = 2 is square)
              rng.random((1, 2)), rng.random((2, 2)), rng.random((3, 2))]
    for batch in compos:
        whole = _cdf(ctx, model, batch, where)
        if whole is None:
            continue
        single = []
        for i in range(len(batch)):
            r = _cdf(ctx, model, batch[i:i + 1].copy(), where)
            if r is None:
                break
            single.append(r[0])
        else:
            single = np.array(single)
            u = biv.ulps(whole, single)
            k = int(np.argmax(u))
            ctx.check(u[k] <= 8, 'cdf.row-independence', 'C06:row-dependence',
                      lambda: dict(where, row=batch[k], in_batch=whole[k], alone=single[k],
                                   batch_size=len(batch)))
            # the alias must be the same function
            alias = ctx.call(model.cdf, batch)
            ctx.check(alias[0] and np.array_equal(np.asarray(alias[1]), whole, equal_nan=True),
                      'cdf.alias', 'C06:alias-differs', where)
    # instance reuse: an instance re-parameterised by assignment behaves like a fresh one -------------------
    reused, th0 = biv.reused_model(fam, th, rng)
    fresh = biv.make_model(fam, th)
    R = biv.interior_points(rng, 40)
    ok_r, a = ctx.call(reused.cumulative_distribution, R)
    ok_f, b = ctx.call(fresh.cumulative_distribution, R)
    ctx.check(ok_r and ok_f and (biv.ulps(a, b) <= 8).all(), 'instance-reuse', 'C06:cdf-depends-on-instance-history',
              lambda: dict(where, previous_theta=th0))
    ctx.sample({'family': fam, 'theta': th, 'grid_points': 256, 'rectangles': n,
                'reference_points': len(P)})
