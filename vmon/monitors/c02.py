"""C02 - the fitted Gaussian-copula correlation is a valid, correctly computed matrix."""

import numpy as np

from vmon import mv
from vmon.core import EPS32, exc_detail, exc_mech, rng_for

PROPERTY = 'C02'
RULE = ('one case per generated table (2..6 columns from a known Gaussian copula: random Gram, '
        'equicorrelated +/-, near-singular, block, identity; marginal families incl. integer-valued and '
        'constant columns; n in {2,3,50,200,1000}) with extras (duplicated, negated, affine, 1e-9-noisy '
        'copy, two-valued, constant column, all-constant) x the five marginal configurations; post-fit '
        'contract on model.correlation recomputed from the public marginals; non-trivial = fit succeeded '
        'and the recomputation was compared; distinct by table spec x configuration')
DECIDING = {'corr.recomputed': 60, 'corr.psd': 60, 'corr.labels': 60}
ASSUMPTIONS = ['ridge/regularisation tolerance 2*EPS32 = 2.4e-7', 'numpy eigvalsh; scipy.special.ndtri']


def cases(seed, tier):
    rng = rng_for(seed, 'C02')
    out = []
    reps = 90 if tier == 'quick' else 5000
    extras_pool = [[], [], ['duplicate'], ['negated'], ['affine'], ['noisy_copy'], ['two_valued'], ['constant'],
                   ['duplicate', 'constant'], ['negated', 'noisy_copy'], ['timestamp'], ['tiny_values'], ['sum'],
                   ['sum', 'timestamp'], ['outlier'], ['outlier', 'sum']]
    for r in range(reps):
        spec = mv.random_table_spec(rng, tier, n=int(rng.choice([2, 3, 50, 200, 1000], p=[.05, .05, .2, .5, .2])))
        spec['extras'] = list(extras_pool[int(rng.integers(len(extras_pool)))])
        cfg = mv.CONFIGS[r % 5]
        if cfg == 'default' and spec['n'] > 200:
            spec['n'] = 200                       # selection fits 8 candidates per column
        out.append({'table': spec, 'config': cfg, 'seed': int(rng.integers(1 << 31))})
    # one family for every column (the commonest explicit configuration), with and without gross outliers
    for r in range(12 if tier == 'quick' else 400):
        spec = mv.random_table_spec(rng, tier, n=int(rng.choice([50, 200, 1000])), marg_pool=['normal', 'gamma', 'uniform', 'student_t'])
        spec['extras'] = [['outlier'], ['outlier', 'sum'], [], ['outlier', 'duplicate']][r % 4]
        out.append({'table': spec, 'config': ['gaussian', 'gaussian', 'kde'][r % 3], 'seed': int(rng.integers(1 << 31))})
    for cfg in mv.CONFIGS:
        out.append({'table': {'d': 3, 'n': 40, 'corr': 'identity', 'marginals': ['constant'] * 3, 'names': 'str',
                              'seed': int(rng.integers(1 << 31)), 'all_constant': True}, 'config': cfg,
                    'seed': int(rng.integers(1 << 31))})
    return out


def check_correlation(ctx, model, df, where, prop='C02'):
    """The post-fit contract; also used as an always-on probe by other workloads."""
    cols = list(df.columns)
    C = model.correlation
    ok_lab = hasattr(C, 'index') and list(C.index) == cols and list(C.columns) == cols
    ctx.check(ok_lab, 'corr.labels', prop + ':correlation-labels-not-training-columns',
              lambda: dict(where, index=[repr(c) for c in getattr(C, 'index', [])], want=[repr(c) for c in cols]))
    A = np.asarray(C, dtype=float)
    d = len(cols)
    if not ctx.check(A.shape == (d, d) and np.isfinite(A).all(), 'corr.finite', prop + ':correlation-nonfinite',
                     lambda: dict(where, shape=list(A.shape))):
        return None
    ctx.check(np.array_equal(A, A.T), 'corr.symmetric', prop + ':correlation-asymmetric',
              lambda: dict(where, worst=float(np.abs(A - A.T).max())))
    ctx.check(A.min() >= -1 - 2 * EPS32 and A.max() <= 1 + 2 * EPS32, 'corr.range', prop + ':correlation-out-of-range',
              lambda: dict(where, min=float(A.min()), max=float(A.max())))
    const = np.array([df[c].nunique() == 1 for c in cols])
    Zs = mv.normal_scores(model, df)
    Cref, score_const = mv.pearson(Zs)
    # a non-constant column may end up with constant normal scores only when a scipy MLE diverged to a spike
    # at floating-point resolution; marginals with closed-form / kernel estimators cannot do that
    robust = []
    for u in model.univariates:
        inner = getattr(u, '_instance', None) or u
        robust.append(type(inner).__name__ in ('GaussianUnivariate', 'UniformUnivariate', 'GaussianKDE'))
    robust = np.array(robust)
    bad_const = score_const & ~const & robust
    ctx.check(not bad_const.any(), 'corr.nonconstant-column-has-scores', prop + ':non-constant-column-modelled-as-constant',
              lambda: dict(where, columns=[repr(c) for c, b in zip(cols, bad_const) if b],
                           marginals=[type(getattr(u, '_instance', None) or u).__name__ for u in model.univariates]))
    degenerate = const | score_const
    diag = np.diag(A)
    ok_diag = (np.abs(diag[~degenerate] - 1) <= 2 * EPS32).all() and (np.abs(diag[degenerate]) <= 2 * EPS32).all()
    ctx.check(ok_diag, 'corr.diagonal', prop + ':correlation-diagonal',
              lambda: dict(where, diag=diag, constant=const, constant_scores=score_const))
    off = A - np.diag(diag)
    ctx.check((np.abs(off[const, :]) <= 2 * EPS32).all() and (np.abs(off[:, const]) <= 2 * EPS32).all(),
              'corr.constant-columns-zero', prop + ':constant-column-correlated',
              lambda: dict(where, worst=float(np.abs(off[const, :]).max()) if const.any() else 0))
    lam = np.linalg.eigvalsh((A + A.T) / 2)
    ctx.check(lam.min() >= -1e-8, 'corr.psd', prop + ':correlation-not-psd', lambda: dict(where, min_eig=float(lam.min())))
    ctx.maxstat('most negative eigenvalue', -lam.min(), where)
    # two correct Pearson algorithms (pandas' online update vs the two-pass formula) differ by about
    # eps * mean^2 / (std_i * std_j): negligible except for score columns that are nearly constant (a marginal
    # fitted on a 1e-9-noisy copy gave scores with std 7.6e-7 and a 5.8e-7 disagreement)
    sd = np.maximum(Zs.std(axis=0), 1e-300)
    tol = 2 * EPS32 + 1e-12 / (sd[:, None] * sd[None, :])
    err = np.abs(A - Cref)
    excess = err - tol
    k = np.unravel_index(int(np.argmax(excess)), err.shape)
    ctx.check(excess.max() <= 0, 'corr.recomputed', prop + ':correlation-not-pearson-of-normal-scores',
              lambda: dict(where, entry=[int(k[0]), int(k[1])], got=A[k], ref=Cref[k], tolerance=float(tol[k]),
                           score_std=[float(sd[k[0]]), float(sd[k[1]])]))
    ctx.maxstat('|C - C_ref|', err.max(), where)
    # "a numerically singular matrix is regularised": when the recomputed matrix is clearly singular
    # (condition number beyond 1e3/eps, far from the library's own 1/eps threshold) a ridge must be there
    lam_ref = np.linalg.eigvalsh(Cref)
    if prop == 'C02' and lam_ref.max() > 0 and lam_ref.min() <= lam_ref.max() * np.finfo(float).eps / 1e3:
        # the library regularises when cond(C) > 1/eps; rounding can leave a perfectly dependent pair with a
        # condition number just below that threshold (known finding F29): name that mechanism separately
        own_cond = np.linalg.cond(A)
        mech = prop + ':singular-correlation-not-regularised'
        if own_cond <= 1.0 / np.finfo(float).eps:
            mech += ':condition-number-just-below-library-threshold'
        ctx.check(lam.min() >= EPS32 / 4, 'corr.singular-is-regularised', mech,
                  lambda: dict(where, min_eig=float(lam.min()), min_eig_unregularised=float(lam_ref.min()),
                               cond=float(own_cond)))
    return A


def run_case(spec, ctx):
    t = spec['table']
    rng = rng_for(spec['seed'], 'cfg')
    df, info = mv.make_table(t)
    where = {'config': spec['config'], 'corr': t['corr'], 'n': t['n'], 'd': df.shape[1],
             'marginals': t['marginals'], 'extras': t.get('extras', [])}
    model = mv.build_model(spec['config'], list(df.columns), rng, random_state=int(rng.integers(1 << 30)))
    if spec['seed'] % 3 == 0 and not t.get('all_constant'):
        mv.give_past(model, df, rng)          # the instance was fitted on another table and used before
        where['refitted'] = True
    np.random.seed(spec['seed'] % (2 ** 31))
    ok, exc = ctx.call(model.fit, df.copy())
    if not ok:
        ctx.violation('corr.fit', 'C02:fit-' + exc_mech(exc), dict(exc_detail(exc), **where))
        return
    A = check_correlation(ctx, model, df, where)
    if A is None:
        return
    okd, dd = ctx.call(model.to_dict)
    ctx.check(okd and np.array_equal(np.asarray(dd['correlation'], dtype=float), A), 'corr.to_dict',
              'C02:to_dict-correlation-differs', where)
    # sampling and density evaluation still work on (numerically) singular matrices
    oks, s = ctx.call(model.sample, 50)
    if not oks:
        from vmon.core import exc_origin
        origin = exc_origin(s) or ''
        if origin.startswith(('optimize/', 'univariate/')):
            # a marginal's own quantile function failed (e.g. the KDE bracket assertion of finding F2 on a
            # 2-row table): not the correlation matrix's doing, and judged by C03
            ctx.note('sample failed inside a marginal quantile function (not judged by C02)')
        else:
            ctx.violation('corr.usable', 'C02:sample-' + exc_mech(s), dict(exc_detail(s), **where))
    else:
        ctx.check(s.shape == (50, df.shape[1]) and np.isfinite(s.to_numpy(dtype=float)).all(), 'corr.usable',
                  'C02:sample-nonfinite-on-regularised-matrix', lambda: dict(where, shape=list(s.shape)))
    okp, p = ctx.call(model.probability_density, df.iloc[:5])
    if not okp:
        ctx.violation('corr.usable', 'C02:pdf-' + exc_mech(p), dict(exc_detail(p), **where))
    else:
        p = np.atleast_1d(np.asarray(p, dtype=float))
        ctx.check(np.isfinite(p).all() and (p >= 0).all(), 'corr.usable', 'C02:pdf-nonfinite-on-regularised-matrix',
                  lambda: dict(where, pdf=p))
    ctx.nontriv('%r|%s' % (sorted(t.items(), key=str), spec['config']))
    ctx.sample({'config': spec['config'], 'table': t, 'min_eig': float(np.linalg.eigvalsh(A).min())})
