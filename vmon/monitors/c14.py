"""C14 - serialisation round trips preserve every model's observable behaviour."""

import json
import os
import shutil
import tempfile

import numpy as np

from vmon import vines, biv, fingerprint as fpr, interpose, mv, uni
from vmon.core import exc_detail, exc_mech, rng_for
from vmon.refs import arch, samplers

PROPERTY = 'C14'
RULE = ('one case per (model kind, constructor options, training data): 9 univariate classes x option '
        'sets of C03 x {regular, constant, 5-point, huge-scale} data; 3 bivariate families x tau grid '
        '(fitted, and parameterised incl. theta=inf) plus unfitted; Gaussian multivariate x 5 '
        'configurations x tables with constant columns; vines 3 types x d in 2..5 x truncation plus '
        'unfitted vines/trees; each model goes through k in {1,2,5} to_dict/from_dict round trips, '
        'json.dumps/loads, pickle or JSON save/load, and the generic from_dict entry points; the oracle '
        'is bit-for-bit equality of to_dict() and of a behaviour fingerprint (pdf, cdf, percent_point / '
        'partial_derivative / likelihood on a probe set, first sample outputs under the same seed); '
        'non-trivial = at least one round trip produced a model whose fingerprint was compared; '
        'distinct by case spec')
DECIDING = {'roundtrip.to_dict-equal': 100, 'roundtrip.fingerprint-equal': 100, 'roundtrip.type': 100,
            'roundtrip.unfitted': 6, 'roundtrip.generic-dispatch': 30}
ASSUMPTIONS = ['fingerprints are finite probe sets', 'vine fingerprints are taken with np.empty poisoned by a '
               'fixed sentinel, so that reads of uninitialised cells (property C19) cannot masquerade as a '
               'serialisation difference']


def cases(seed, tier):
    rng = rng_for(seed, 'C14')
    out = []
    mspecs = uni.model_specs(rng, tier)
    ureps = 2 if tier == 'quick' else 100
    for ms in mspecs:
        for r in range(ureps):
            kind = str(rng.choice(['normal', 'skewed', 'five', 'huge', 'beta', 'heavy', 'bimodal', 'tiny', 'minuscule', 'offset']))
            out.append({'kind': 'univariate', 'model': ms, 'data': {'kind': kind, 'n': int(rng.choice([40, 300])),
                                                                     'seed': int(rng.integers(1 << 31))}})
        out.append({'kind': 'univariate', 'model': ms, 'constant': float(rng.choice([3.0, -1.5, 1e5]))})
        out.append({'kind': 'univariate', 'model': ms, 'constant': 0.0})       # a falsy constant
    for fam in biv.FAMILIES:
        taus = [0.05, 0.3, 0.6, 0.8] + ([-0.4, -0.8] if fam == 'frank' else [])
        for tau in taus if tier == 'quick' else taus + [float(rng.uniform(0.02, 0.9)) for _ in range(150)]:
            out.append({'kind': 'bivariate', 'family': fam, 'tau': tau, 'mode': 'fitted', 'seed': int(rng.integers(1 << 31))})
            out.append({'kind': 'bivariate', 'family': fam, 'tau': tau, 'mode': 'param', 'seed': int(rng.integers(1 << 31))})
        out.append({'kind': 'bivariate', 'family': fam, 'mode': 'unfitted', 'tau': None, 'seed': 1})
    out.append({'kind': 'bivariate', 'family': 'clayton', 'mode': 'theta_inf', 'tau': 1.0, 'seed': 1})
    for r in range(10 if tier == 'quick' else 1000):
        t = mv.random_table_spec(rng, tier, n=int(rng.choice([60, 300])))
        if r % 3 == 0 and 'constant' not in t['marginals']:
            t['marginals'][int(rng.integers(len(t['marginals'])))] = 'constant'
        out.append({'kind': 'gaussian', 'table': t, 'config': mv.CONFIGS[r % 5], 'seed': int(rng.integers(1 << 31))})
    for r in range(9 if tier == 'quick' else 900):
        d = int(rng.integers(2, 6))
        out.append({'kind': 'vine', 'vine_type': ['center', 'direct', 'regular'][r % 3], 'd': d,
                    'truncated': int(rng.choice([1, 2, 3, 10])), 'n': int(rng.choice([60, 200])),
                    'seed': int(rng.integers(1 << 31))})
    for vt in ('center', 'direct', 'regular'):
        out.append({'kind': 'vine_unfitted', 'vine_type': vt})
    return out


def _tmpdir():
    base = os.environ.get('VMON_TMP') or os.path.join(os.path.dirname(os.path.dirname(os.path.dirname(
        os.path.abspath(__file__)))), 'evidence', 'tmp')
    os.makedirs(base, exist_ok=True)
    return tempfile.mkdtemp(prefix='c14_', dir=base)


def _compare(ctx, where, label, d0, fp0, m2, fp_fn, expect_type):
    ctx.check(type(m2).__name__ == expect_type, 'roundtrip.type', 'C14:%s-wrong-type' % where['kind'],
              lambda: dict(where, via=label, got=type(m2).__name__, want=expect_type))
    ok, d2 = ctx.call(m2.to_dict)
    if not ok:
        ctx.violation('roundtrip.to_dict-equal', 'C14:%s-to_dict-%s' % (where['kind'], exc_mech(d2)),
                      dict(exc_detail(d2), **where, via=label))
    else:
        same, path = fpr.deep_equal(d0, d2)
        ctx.check(same, 'roundtrip.to_dict-equal', 'C14:%s-to_dict-differs' % where['kind'],
                  lambda: dict(where, via=label, at=path))
    fp2 = fp_fn(m2)
    if isinstance(fp0, dict) and 'cdf_noisy' in fp0:
        a, b = fp0['cdf_noisy'], fp2.get('cdf_noisy')
        close = (isinstance(a, str) and a == b) or (not isinstance(a, str) and not isinstance(b, str) and
                                                    np.allclose(a, b, rtol=0, atol=2e-4, equal_nan=True))
        ctx.check(close, 'roundtrip.cdf-close', 'C14:%s-cdf-differs' % where['kind'] +
                  (':options-not-serialised' if where.get('lost_options') else ''), lambda: dict(where, via=label, a=a, b=b))
        fp0 = {k: v for k, v in fp0.items() if k != 'cdf_noisy'}
        fp2 = {k: v for k, v in fp2.items() if k != 'cdf_noisy'}
    same, path = fpr.deep_equal(fp0, fp2)
    top = path.split('/')[1] if same is False and '/' in path else ''
    mech = 'C14:%s-behaviour-differs-%s' % (where['kind'], top)
    if not same and where.get('lost_options'):
        # constructor options that change behaviour are absent from to_dict(): that is the mechanism
        mech = 'C14:%s-behaviour-differs:options-not-serialised' % where['kind']
    ctx.check(same, 'roundtrip.fingerprint-equal', mech, lambda: dict(where, via=label, at=path))
    return same


def _roundtrips(ctx, where, model, from_dict, fp_fn, expect_type, json_ok, save_load, generic=None):
    """All the ways a model can leave and re-enter the process."""
    ok, d0 = ctx.call(model.to_dict)
    if not ok:
        ctx.violation('roundtrip.to_dict-equal', 'C14:%s-to_dict-%s' % (where['kind'], exc_mech(d0)),
                      dict(exc_detail(d0), **where))
        return False
    fp0 = fp_fn(model)
    # to_dict must not have changed the model
    same, path = fpr.deep_equal({k: v for k, v in fp0.items() if k != 'cdf_noisy'},
                                {k: v for k, v in fp_fn(model).items() if k != 'cdf_noisy'})
    ctx.check(same, 'roundtrip.fingerprint-stable', 'C14:%s-fingerprint-not-reproducible' % where['kind'],
              lambda: dict(where, at=path))
    compared = False
    cur = d0
    for k in range(1, 6):
        ok, m2 = ctx.call(from_dict, cur)
        if not ok:
            ctx.violation('roundtrip.from_dict', 'C14:%s-from_dict-%s' % (where['kind'], exc_mech(m2)),
                          dict(exc_detail(m2), **where, trip=k))
            break
        if k in (1, 2, 5):
            compared |= bool(_compare(ctx, where, 'from_dict x%d' % k, d0, fp0, m2, fp_fn, expect_type)) or True
        ok, cur = ctx.call(m2.to_dict)
        if not ok:
            break
    if json_ok:
        ok, dj = ctx.call(lambda: json.loads(json.dumps(d0)))
        if not ok:
            ctx.violation('roundtrip.json', 'C14:%s-not-json-serialisable' % where['kind'],
                          dict(exc_detail(dj), **where))
        else:
            ok, mj = ctx.call(from_dict, dj)
            if ok:
                _compare(ctx, where, 'json', d0, fp0, mj, fp_fn, expect_type)
            else:
                ctx.violation('roundtrip.json', 'C14:%s-from-json-dict-%s' % (where['kind'], exc_mech(mj)),
                              dict(exc_detail(mj), **where))
    if save_load:
        tmp = _tmpdir()
        try:
            path = os.path.join(tmp, 'model.bin')
            ok, e = ctx.call(model.save, path)
            if ok:
                ok, ml = ctx.call(type(model).load, path)
                if ok:
                    _compare(ctx, where, 'save/load', d0, fp0, ml, fp_fn, save_load)
                else:
                    ctx.violation('roundtrip.save-load', 'C14:%s-load-%s' % (where['kind'], exc_mech(ml)),
                                  dict(exc_detail(ml), **where))
            else:
                ctx.violation('roundtrip.save-load', 'C14:%s-save-%s' % (where['kind'], exc_mech(e)),
                              dict(exc_detail(e), **where))
        finally:
            shutil.rmtree(tmp, ignore_errors=True)
    if generic is not None:
        ok, mg = ctx.call(generic, d0)
        if not ok:
            ctx.violation('roundtrip.generic-dispatch', 'C14:%s-generic-from_dict-%s' % (where['kind'], exc_mech(mg)),
                          dict(exc_detail(mg), **where))
        else:
            ctx.check(type(mg).__name__ == expect_type, 'roundtrip.generic-dispatch', 'C14:%s-generic-from_dict-wrong-type' % where['kind'],
                      lambda: dict(where, got=type(mg).__name__, want=expect_type))
            _compare(ctx, where, 'generic from_dict', d0, fp0, mg, fp_fn, expect_type)
    return True


def _univariate(spec, ctx):
    from copulas.univariate import Univariate
    ms = spec['model']
    where = {'kind': 'univariate', 'model': ms['cls'], 'kwargs': ms.get('kwargs', {})}
    if 'constant' in spec:
        data = np.full(30, spec['constant'])
        where['data'] = 'constant'
    else:
        data = uni.make_data(spec['data'])
        where['data'] = spec['data']['kind']
    model = uni.build(ms, data)
    np.random.seed(7)
    ok, exc = ctx.call(model.fit, data)
    if not ok:
        ctx.note('fit refused (not a fitted model)')
        return
    expect = uni.selected_family(model) if ms['cls'] == 'Univariate' else ms['cls']
    where['family'] = expect
    inner = model._instance if ms['cls'] == 'Univariate' else model
    okd, dd = ctx.call(model.to_dict)
    lost = []
    if expect == 'GaussianKDE' and okd:
        if getattr(inner, 'bw_method', None) not in (None, 'scott') and 'bw_method' not in dd:
            lost.append('bw_method')
        if getattr(inner, 'weights', None) is not None and 'weights' not in dd:
            lost.append('weights')
    where['lost_options'] = lost
    probe = data if 'constant' not in spec else np.array([spec['constant'] - 1, spec['constant'], spec['constant'] + 1])

    def fp_fn(m):
        return fpr.univariate(m, probe)
    done = _roundtrips(ctx, where, model, Univariate.from_dict, fp_fn, expect, True, False, generic=None)
    # class-level from_dict of the concrete family dispatches on the recorded type as well
    ok, d0 = ctx.call(model.to_dict)
    if ok:
        okc, mc = ctx.call(type(model).from_dict, d0)
        ctx.check(okc and type(mc).__name__ == expect, 'roundtrip.generic-dispatch', 'C14:univariate-class-from_dict-wrong-type',
                  lambda: dict(where, got=type(mc).__name__ if okc else repr(mc)[:100]))
    # pickle save/load keeps the object as it is (a selecting wrapper stays a wrapper)
    tmp = _tmpdir()
    try:
        path = os.path.join(tmp, 'u.pkl')
        ok, e = ctx.call(model.save, path)
        ok2, ml = ctx.call(Univariate.load, path) if ok else (False, e)
        if ok2:
            same, at = fpr.deep_equal(fp_fn(model), fp_fn(ml))
            okd, dd = ctx.call(ml.to_dict)
            d0 = model.to_dict()
            same_d = okd and fpr.deep_equal(d0, dd)[0]
            ctx.check(same and same_d and type(ml) is type(model), 'roundtrip.pickle', 'C14:univariate-pickle-differs',
                      lambda: dict(where, at=at, type=type(ml).__name__))
        else:
            ctx.violation('roundtrip.pickle', 'C14:univariate-pickle-' + exc_mech(ml), dict(exc_detail(ml), **where))
    finally:
        shutil.rmtree(tmp, ignore_errors=True)
    if done:
        ctx.nontriv('u|%s|%r|%s' % (ms['cls'], ms.get('kwargs'), spec.get('data', spec.get('constant'))))
    ctx.sample({'kind': 'univariate', 'model': ms, 'data': spec.get('data', {'constant': spec.get('constant')})})


def _bivariate(spec, ctx):
    from copulas.bivariate import Bivariate
    fam = spec['family']
    where = {'kind': 'bivariate', 'family': fam, 'mode': spec['mode'], 'tau': spec['tau']}
    cls = biv.cls(fam)
    if spec['mode'] == 'unfitted':
        m = cls()
        ok, d = ctx.call(m.to_dict)
        if not ok:
            ctx.violation('roundtrip.unfitted', 'C14:bivariate-unfitted-to_dict-' + exc_mech(d), dict(exc_detail(d), **where))
            return
        ok, m2 = ctx.call(Bivariate.from_dict, d)
        ctx.check(ok and type(m2) is cls and m2.theta is None and m2.tau is None, 'roundtrip.unfitted',
                  'C14:bivariate-unfitted-roundtrip', lambda: dict(where, got=repr(m2)[:80]))
        from copulas.errors import NotFittedError
        if ok:
            o, e = ctx.call(m2.cumulative_distribution, np.array([[0.3, 0.4]]))
            ctx.check(not o and isinstance(e, NotFittedError), 'roundtrip.unfitted', 'C14:bivariate-unfitted-became-usable',
                      lambda: dict(where, got=repr(e)[:80]))
        ctx.nontriv('b|unfitted|' + fam)
        return
    rng = rng_for(spec['seed'])
    if spec['mode'] == 'fitted':
        th = float(arch.theta_from_tau(fam, spec['tau']))
        m = cls()
        ok, exc = ctx.call(m.fit, samplers.SAMPLERS[fam](th, 400, rng))
        if not ok:
            ctx.note('bivariate fit refused')
            return
    elif spec['mode'] == 'theta_inf':
        m = cls()
        u = rng.random(30)
        ok, exc = ctx.call(m.fit, np.column_stack([u, u]))
        if not ok or not np.isinf(m.theta):
            ctx.note('theta=inf not produced')
            return
    else:
        m = biv.make_model(fam, float(arch.theta_from_tau(fam, spec['tau'])))
    done = _roundtrips(ctx, where, m, Bivariate.from_dict, fpr.bivariate, cls.__name__, True, cls.__name__,
                       generic=cls.from_dict)
    if done:
        ctx.nontriv('b|%s|%s|%r' % (fam, spec['mode'], spec['tau']))
    ctx.sample(dict(where, theta=m.theta))


def _gaussian(spec, ctx):
    from copulas.multivariate import GaussianMultivariate
    from copulas.multivariate.base import Multivariate
    t = spec['table']
    rng = rng_for(spec['seed'], 'cfg')
    df, _ = mv.make_table(t)
    where = {'kind': 'gaussian', 'config': spec['config'], 'marginals': t['marginals'], 'd': df.shape[1]}
    model = mv.build_model(spec['config'], list(df.columns), rng)
    np.random.seed(spec['seed'] % (2 ** 31))
    ok, exc = ctx.call(model.fit, df.copy())
    if not ok:
        ctx.violation('roundtrip.fit', 'C14:gaussian-fit-' + exc_mech(exc), dict(exc_detail(exc), **where))
        return

    lost = []
    okd, dd = ctx.call(model.to_dict)
    for u, ud in zip(model.univariates, dd.get('univariates', []) if okd else []):
        inner = getattr(u, '_instance', None) or u
        if type(inner).__name__ == 'GaussianKDE':
            if getattr(inner, 'bw_method', None) not in (None, 'scott') and 'bw_method' not in ud:
                lost.append('bw_method')
            if getattr(inner, 'weights', None) is not None and 'weights' not in ud:
                lost.append('weights')
    where['lost_options'] = sorted(set(lost))

    def fp_fn(m):
        return fpr.gaussian_mv(m, df)
    # JSON turns integer column labels into strings, and the property speaks of models trained on floating-point data
    json_ok = all(isinstance(c, str) for c in df.columns) and all(dt.kind == 'f' for dt in df.dtypes)
    done = _roundtrips(ctx, where, model, GaussianMultivariate.from_dict, fp_fn, 'GaussianMultivariate', json_ok,
                       'GaussianMultivariate', generic=Multivariate.from_dict)
    if done:
        ctx.nontriv('g|%d|%s' % (spec['seed'], spec['config']))
    ctx.sample({'kind': 'gaussian', 'table': t, 'config': spec['config']})


def _vine(spec, ctx):
    import copulas.multivariate.tree as tree_mod
    import copulas.multivariate.vine as vine_mod
    from copulas.multivariate import VineCopula
    from copulas.multivariate.base import Multivariate
    if spec['kind'] == 'vine_unfitted':
        where = {'kind': 'vine', 'vine_type': spec['vine_type'], 'mode': 'unfitted'}
        v = VineCopula(spec['vine_type'])
        ok, d = ctx.call(v.to_dict)
        ok2, v2 = ctx.call(VineCopula.from_dict, d) if ok else (False, d)
        ctx.check(ok2 and not v2.fitted and v2.vine_type == spec['vine_type'], 'roundtrip.unfitted', 'C14:vine-unfitted-roundtrip',
                  lambda: dict(where, got=repr(v2)[:100]))
        t = tree_mod.get_tree(spec['vine_type'])
        ok, td = ctx.call(t.to_dict)
        ok2, t2 = ctx.call(tree_mod.Tree.from_dict, td) if ok else (False, td)
        ctx.check(ok2 and not t2.fitted and type(t2) is type(t), 'roundtrip.unfitted', 'C14:tree-unfitted-roundtrip',
                  lambda: dict(where, got=repr(t2)[:100]))
        ctx.nontriv('v|unfitted|' + spec['vine_type'])
        return
    rng = rng_for(spec['seed'], 'vine')
    d = spec['d']
    t = {'d': d, 'n': spec['n'], 'corr': str(rng.choice(['gram', 'equi_pos', 'block'])),
         'marginals': [str(rng.choice(['normal', 'gamma', 'beta', 'uniform'])) for _ in range(d)], 'names': 'str',
         'seed': spec['seed']}
    df, _ = mv.make_table(t)
    if spec['seed'] % 3 == 0:
        df.columns = list(range(10, 10 + d))          # non-string labels
    where = {'kind': 'vine', 'vine_type': spec['vine_type'], 'd': d, 'truncated': spec['truncated'],
             'labels': 'int' if spec['seed'] % 3 == 0 else 'str'}
    model = VineCopula(spec['vine_type'])
    with interpose.poison_empty(111.0, tree_mod, vine_mod):
        ok, exc = ctx.call(model.fit, df.copy(), truncated=spec['truncated'])
    if not ok:
        if vines.is_refusal(exc):
            ctx.note('vine fit refused with ValueError')
            return
        ctx.violation('roundtrip.fit', 'C14:vine-fit-' + exc_mech(exc), dict(exc_detail(exc), **where))
        return
    u = [rng.uniform(0.05, 0.95, size=(1, d)) for _ in range(3)]

    def fp_fn(m):
        with interpose.poison_empty(111.0, tree_mod, vine_mod):
            return fpr.vine(m, u)
    done = _roundtrips(ctx, where, model, VineCopula.from_dict, fp_fn, 'VineCopula', False, 'VineCopula',
                       generic=Multivariate.from_dict)
    if done:
        ctx.nontriv('v|%d|%s|%d' % (spec['seed'], spec['vine_type'], spec['truncated']))
    ctx.sample(dict(where, table=t))


def run_case(spec, ctx):
    k = spec['kind']
    if k == 'univariate':
        return _univariate(spec, ctx)
    if k == 'bivariate':
        return _bivariate(spec, ctx)
    if k == 'gaussian':
        return _gaussian(spec, ctx)
    return _vine(spec, ctx)
