"""C13 - Gaussian-copula density/CDF equal the normal-score MVN, in any representation."""

import numpy as np
from scipy.special import ndtr

from vmon import mv, stats
from vmon.core import exc_detail, exc_mech, rng_for
from vmon.refs import mvn

PROPERTY = 'C13'
RULE = ('one case per fitted model (tables of C01, fast configurations) or per synthetic model built '
        'through from_dict with a block-diagonal correlation (exact CDF reference); query points inside '
        'the training range, 10 sd outside and with one coordinate at +/-1e6; batch sizes 1,3,64; oracle: '
        'pdf vs independent MVN log-density of monitor-computed normal scores, log_pdf = log pdf, '
        'DataFrame / column-permuted DataFrame / ndarray / row-by-row Series agree, batch recomposition, '
        'CDF in [0,1], vs quadrature (d=2, block-diagonal) or Monte-Carlo reference (d>=3), monotone along '
        'coordinate lines with slack 5e-4; non-trivial = density reference comparison ran; distinct by '
        'model spec')
DECIDING = {'pdf.reference': 300, 'pdf.representation-invariance': 100, 'cdf.reference': 60,
            'cdf.monotone': 60, 'pdf.row-independence': 30}
ASSUMPTIONS = ['scipy MVN CDF is a randomised integrator (8e-6 run-to-run noise): 5e-4 monotonicity slack, '
               '1e-4 absolute tolerance against quadrature',
               'Monte-Carlo reference: 400k draws, Hoeffding band at 1e-13 (6.2e-3) + 2e-4']


def cases(seed, tier):
    rng = rng_for(seed, 'C13')
    out = []
    reps = 28 if tier == 'quick' else 1000
    for r in range(reps):
        t = mv.random_table_spec(rng, tier, n=int(rng.choice([200, 1000])))
        out.append({'mode': 'fitted', 'table': t, 'config': str(rng.choice(['class', 'name', 'dict', 'instance', 'default'],
                                                                           p=[.3, .2, .3, .1, .1])),
                    'seed': int(rng.integers(1 << 31)), 'cdf_rows': 24 if tier == 'quick' else 40})
    for r in range(10 if tier == 'quick' else 600):
        out.append({'mode': 'synthetic', 'd': int(rng.integers(2, 7)), 'seed': int(rng.integers(1 << 31)),
                    'cdf_rows': 30})
    # wide models: far-out rows have a density that underflows to 0 (density part only)
    for r in range(2 if tier == 'quick' else 40):
        out.append({'mode': 'synthetic', 'd': int(rng.choice([64, 80])), 'seed': int(rng.integers(1 << 31)), 'cdf_rows': 0})
    return out


def _same_density(a, b):
    """Densities agree: compared in log space, because far-tail densities (1e-27) amplify the last-bit
    differences of batched vs single-row BLAS sums in the marginal CDFs (observed 3.5e-9 relative)."""
    a, b = np.asarray(a, dtype=float), np.asarray(b, dtype=float)
    if a.shape != b.shape:
        return False
    with np.errstate(all='ignore'):
        la, lb = np.log(a), np.log(b)
        ok = (a == b) | (np.isnan(a) & np.isnan(b)) | (np.abs(la - lb) <= 1e-9 * (1 + np.abs(la)))
    return bool(np.all(ok))


def _pdf(ctx, model, X, where, probe='pdf.call'):
    ok, p = ctx.call(model.probability_density, X)
    if not ok:
        ctx.violation(probe, 'C13:pdf-' + exc_mech(p), dict(exc_detail(p), **where))
        return None
    return np.atleast_1d(np.asarray(p, dtype=float))


def _cdf(ctx, model, X, where):
    ok, p = ctx.call(model.cumulative_distribution, X)
    if not ok:
        ctx.violation('cdf.call', 'C13:cdf-' + exc_mech(p), dict(exc_detail(p), **where))
        return None
    return np.atleast_1d(np.asarray(p, dtype=float))


def _queries(df, rng, n):
    import pandas as pd
    X = df.sample(n=min(n, len(df)), random_state=int(rng.integers(1 << 30))).to_numpy(dtype=float)
    sd = df.std().to_numpy()
    sd = np.where(sd > 0, sd, 1.0)
    far = X[: max(2, n // 6)] + 10 * sd[None, :] * rng.choice([-1, 1], size=(max(2, n // 6), X.shape[1]))
    huge = X[: max(2, n // 8)].copy()
    for i in range(len(huge)):
        huge[i, int(rng.integers(X.shape[1]))] = float(rng.choice([-1e6, 1e6]))
    Q = np.vstack([X, far, huge])
    return pd.DataFrame(Q, columns=df.columns)


def _check_pdf(ctx, model, Q, S, where):
    import pandas as pd
    cols = list(Q.columns)
    p = _pdf(ctx, model, Q, where)
    if p is None:
        return
    cond = np.linalg.cond(S)
    Zs = mv.normal_scores(model, Q)
    if cond < 1e8:
        ref = np.exp(mvn.logpdf(Zs, S))
        err = np.abs(p - ref) / (1e-8 * np.abs(ref) * max(1.0, cond / 1e3) + 1e-300)
        err = np.where(np.isnan(err), np.inf, err)
        k = int(np.argmax(err))
        ctx.check(p.shape == (len(Q),) and err[k] <= 1, 'pdf.reference', 'C13:density-not-mvn-of-normal-scores',
                  lambda: dict(where, row=Q.iloc[k].tolist(), got=p[k], ref=ref[k], cond=cond))
        ctx.ok('pdf.reference', len(Q) - 1)
        ctx.maxstat('pdf rel. error vs MVN reference', float(np.nanmax(np.abs(p - ref) / (np.abs(ref) + 1e-300))), where)
    else:
        ctx.check(np.isfinite(p).all() and (p >= 0).all(), 'pdf.singular-finite', 'C13:density-nonfinite-on-singular-model',
                  lambda: dict(where, cond=cond))
    okl, lp = ctx.call(model.log_probability_density, Q)
    if okl:
        lp = np.atleast_1d(np.asarray(lp, dtype=float))
        pos = p > 1e-300
        ctx.check(np.allclose(lp[pos], np.log(p[pos]), rtol=1e-9, atol=1e-9), 'logpdf.is-log', 'C13:logpdf-not-log-pdf', where)
        under = ~pos
        if under.any() and cond < 1e8:
            # the density underflowed: its logarithm is -inf, or - if computed directly - the MVN log-density itself
            lref = mvn.logpdf(Zs[under], S)
            with np.errstate(all='ignore'):
                logp = np.log(p[under])          # a subnormal density has a logarithm too (with few significant bits)
            oku = np.isneginf(lp[under]) | (np.abs(lp[under] - lref) <= 1e-6 * np.abs(lref)) | \
                (np.isfinite(logp) & (np.abs(lp[under] - logp) <= 1e-9 * np.abs(logp)))
            ctx.check(bool(oku.all()), 'logpdf.is-log', 'C13:logpdf-of-underflowing-density-wrong',
                      lambda: dict(where, got=lp[under][:3], reference_log_density=lref[:3]))
    else:
        ctx.violation('logpdf.is-log', 'C13:logpdf-' + exc_mech(lp), dict(exc_detail(lp), **where))
    # representations -----------------------------------------------------------------------------------
    rng = rng_for(len(Q), 'perm', float(p[0]) if np.isfinite(p[0]) else 0)
    perm = list(rng.permutation(len(cols)))
    reps = {'permuted DataFrame': Q[[cols[i] for i in perm]],
            'ndarray': Q.to_numpy(),
            'alias pdf()': None}
    for name, arg in reps.items():
        if name == 'alias pdf()':
            ok, q = ctx.call(model.pdf, Q)
            q = np.atleast_1d(np.asarray(q, dtype=float)) if ok else None
        else:
            q = _pdf(ctx, model, arg, dict(where, representation=name), 'pdf.representation-invariance')
        if q is None:
            continue
        ctx.check(_same_density(q, p),
                  'pdf.representation-invariance', 'C13:density-depends-on-representation',
                  lambda: dict(where, representation=name, a=p[:3], b=q[:3]))
    # the same numbers in another dtype (float32 / integer frames are ordinary pandas tables), and the same rows
    # inside a long batch (> 2000 rows): results must be those of the float64 / short-batch call
    import pandas as pd
    q32 = Q.astype('float32')
    ints = Q.round().clip(-2 ** 30, 2 ** 30).astype('int64')
    for name, arg in (('float32 DataFrame', q32), ('float32 ndarray', q32.to_numpy()), ('int64 DataFrame', ints),
                      ('int32 ndarray', ints.to_numpy().astype('int32'))):
        ref64 = _pdf(ctx, model, pd.DataFrame(np.asarray(arg, dtype='float64'), columns=cols), dict(where, representation='float64 copy'),
                     'pdf.representation-invariance')
        q = _pdf(ctx, model, arg, dict(where, representation=name), 'pdf.representation-invariance')
        if q is None or ref64 is None:
            continue
        ctx.check(_same_density(q, ref64), 'pdf.representation-invariance', 'C13:density-depends-on-dtype',
                  lambda: dict(where, representation=name, a=ref64[:3], b=q[:3]))
    reps_n = -(-2100 // len(Q))
    long_batch = pd.concat([Q] * reps_n, ignore_index=True)
    ql = _pdf(ctx, model, long_batch, dict(where, representation='long batch'), 'pdf.row-independence')
    if ql is not None:
        ctx.check(len(ql) == len(long_batch) and _same_density(ql[:len(Q)], p) and _same_density(ql[-len(Q):], p),
                  'pdf.row-independence', 'C13:row-result-depends-on-batch',
                  lambda: dict(where, representation='batch of %d rows' % len(long_batch), alone=p[:3], in_batch=ql[:3]))
    rows = rng.choice(len(Q), size=min(6, len(Q)), replace=False)
    for i in rows:
        for name, arg in (('Series', Q.iloc[int(i)]), ('Series-permuted-index', Q.iloc[int(i)][[cols[j] for j in perm]]),
                          ('1-d ndarray', Q.iloc[int(i)].to_numpy()),
                          ('1-row DataFrame', Q.iloc[[int(i)]])):
            q = _pdf(ctx, model, arg, dict(where, representation=name), 'pdf.row-independence')
            if q is None:
                continue
            ctx.check(q.shape == (1,) and _same_density(q, p[i:i + 1]),
                      'pdf.row-independence', 'C13:row-result-depends-on-batch',
                      lambda: dict(where, representation=name, row=int(i), alone=q, in_batch=p[i]))
    sub = Q.iloc[rng.permutation(len(Q))[:3]]
    q = _pdf(ctx, model, sub, where, 'pdf.row-independence')
    if q is not None:
        ctx.check(_same_density(q, p[[Q.index.get_loc(ix) for ix in sub.index]]),
                  'pdf.row-independence', 'C13:row-result-depends-on-batch', lambda: dict(where, representation='batch of 3'))


def _check_cdf(ctx, model, Q, S, where, exact_blocks=None):
    cols = list(Q.columns)
    d = len(cols)
    F = _cdf(ctx, model, Q, where)
    if F is None:
        return
    ctx.check(F.shape == (len(Q),) and (F >= -1e-9).all() and (F <= 1 + 1e-9).all() and not np.isnan(F).any(),
              'cdf.range', 'C13:cdf-out-of-range', lambda: dict(where, min=float(np.nanmin(F)), max=float(np.nanmax(F))))
    Zs = mv.normal_scores(model, Q)
    if exact_blocks is not None or d == 2:
        blocks = exact_blocks if exact_blocks is not None else [[0, 1]]
        ref = np.ones(len(Q))
        for b in blocks:
            if len(b) == 1:
                ref *= ndtr(Zs[:, b[0]])
            else:
                ref *= np.array([mvn.bvn_cdf(z[b[0]], z[b[1]], S[b[0], b[1]]) for z in Zs])
        err = np.abs(F - ref)
        k = int(np.argmax(np.where(np.isnan(err), np.inf, err)))
        ctx.check(err[k] <= 1e-4 * max(1, len(blocks) / 2), 'cdf.reference', 'C13:cdf-not-mvn-cdf-of-normal-scores',
                  lambda: dict(where, row=Q.iloc[k].tolist(), got=F[k], ref=ref[k], kind='quadrature'))
        ctx.ok('cdf.reference', len(Q) - 1)
        ctx.maxstat('|CDF - quadrature reference|', float(np.nanmax(err)), where)
    else:
        band = stats.grid_eps(400_000, 1) + 2e-4
        # two ordinary rows, and rows in which a single coordinate lies far outside its marginal's range (its normal
        # score saturates; the CDF is then that of the other coordinates) - preferably not the last coordinate
        sat = [k for k in range(len(Q)) if (np.abs(Zs[k]) >= 5).sum() == 1 and (Zs[k] >= 5).sum() == 1]
        sat.sort(key=lambda k: int(np.argmax(np.abs(Zs[k]))))
        for k in list(range(min(2, len(Q)))) + sat[:3]:
            ref = mvn.mc_cdf(Zs[k], S)
            ctx.check(abs(F[k] - ref) <= band, 'cdf.reference', 'C13:cdf-not-mvn-cdf-of-normal-scores',
                      lambda: dict(where, row=Q.iloc[k].tolist(), got=F[k], ref=ref, kind='monte-carlo', band=band))
            ctx.maxstat('|CDF - MC reference| / band', abs(F[k] - ref) / band, where)
    # ndarray and permuted DataFrame give the same CDF (up to the integrator's noise)
    rng = rng_for(len(Q), 'cdfperm')
    perm = list(rng.permutation(d))
    for name, arg in (('ndarray', Q.to_numpy()), ('permuted DataFrame', Q[[cols[i] for i in perm]])):
        G = _cdf(ctx, model, arg, dict(where, representation=name))
        if G is not None:
            ctx.check(G.shape == F.shape and np.nanmax(np.abs(G - F)) <= 2e-4, 'cdf.representation-invariance',
                      'C13:cdf-depends-on-representation', lambda: dict(where, representation=name, worst=float(np.nanmax(np.abs(G - F)))))
    # monotone along coordinate lines
    import pandas as pd
    base = Q.iloc[0].to_numpy(dtype=float)
    for j in range(d):
        lo, hi = Q.iloc[:, j].min(), Q.iloc[:, j].max()
        line = np.repeat(base[None, :], 30, axis=0)
        line[:, j] = np.linspace(lo, hi, 30)
        L = _cdf(ctx, model, pd.DataFrame(line, columns=cols), where)
        if L is None:
            continue
        dl = np.diff(L)
        ctx.check(not np.isnan(L).any() and dl.min() >= -5e-4, 'cdf.monotone', 'C13:cdf-not-monotone-in-coordinate',
                  lambda: dict(where, coordinate=repr(cols[j]), worst=float(np.nanmin(dl))))
        ctx.maxstat('largest CDF decrease along a line', -dl.min(), where)


def run_case(spec, ctx):
    import pandas as pd
    rng = rng_for(spec['seed'], 'cfg')
    if spec['mode'] == 'synthetic':
        from copulas.multivariate import GaussianMultivariate
        d = spec['d']
        blocks, S = [], np.eye(d)
        j = 0
        while j < d:
            if j + 1 < d and rng.random() < 0.7:
                r = float(rng.uniform(-0.95, 0.95))
                S[j, j + 1] = S[j + 1, j] = r
                blocks.append([j, j + 1])
                j += 2
            else:
                blocks.append([j])
                j += 1
        cols = ['v%d' % i for i in range(d)]
        params = {'correlation': S.tolist(), 'columns': cols, 'type': 'copulas.multivariate.gaussian.GaussianMultivariate',
                  'univariates': [{'type': 'copulas.univariate.gaussian.GaussianUnivariate',
                                   'loc': float(rng.uniform(-5, 5)), 'scale': float(rng.uniform(0.5, 3))} for _ in cols]}
        ok, model = ctx.call(GaussianMultivariate.from_dict, params)
        if not ok:
            ctx.violation('pdf.call', 'C13:from_dict-' + exc_mech(model), exc_detail(model))
            return
        df = pd.DataFrame(rng.normal(size=(200, d)) * 2, columns=cols)
        where = {'mode': 'synthetic', 'd': d, 'blocks': blocks}
        Q = _queries(df, rng, 48)
        _check_pdf(ctx, model, Q, S, where)
        if d <= 8:
            _check_cdf(ctx, model, Q.iloc[:spec['cdf_rows']], S, where, exact_blocks=blocks)
        ctx.nontriv('synthetic|%d' % spec['seed'])
        return
    t = spec['table']
    df, info = mv.make_table(t)
    if spec['config'] == 'default':
        df = df.iloc[:200]
    cols = list(df.columns)
    where = {'mode': 'fitted', 'config': spec['config'], 'corr': t['corr'], 'd': len(cols), 'marginals': t['marginals']}
    model = mv.build_model(spec['config'], cols, rng)
    if spec['seed'] % 2:
        mv.give_past(model, df, rng)
        where['refitted'] = True
    np.random.seed(spec['seed'] % (2 ** 31))
    ok, exc = ctx.call(model.fit, df.copy())
    if not ok:
        ctx.violation('pdf.call', 'C13:fit-' + exc_mech(exc), dict(exc_detail(exc), **where))
        return
    S = np.asarray(model.correlation, dtype=float)
    for bs in (64, 3, 1):
        Q = _queries(df, rng, bs)
        _check_pdf(ctx, model, Q, S, dict(where, batch=len(Q)))
    if np.linalg.cond(S) < 1e6:
        Qall = _queries(df, rng, spec['cdf_rows'])
        import pandas as pd
        Qc = pd.concat([Qall.iloc[:spec['cdf_rows'] - 6], Qall.iloc[-6:]])       # keeps the one-coordinate-far rows
        _check_cdf(ctx, model, Qc, S, where)
    else:
        ctx.note('CDF not judged on ill-conditioned correlation (scipy integrator)')
    ctx.nontriv('fitted|%d|%s' % (spec['seed'], spec['config']))
    ctx.sample({'table': t, 'config': spec['config']})
