"""C09 - bivariate copula samples have uniform margins and the model's dependence."""

import numpy as np

from vmon import biv, interpose, stats
from vmon.core import exc_detail, exc_mech, rng_for
from vmon.monitors.c10 import frank_tol
from vmon.refs import arch, rank, samplers

PROPERTY = 'C09'
RULE = ('one case per (family, tau, seed, parameterised|fitted): tau in +/-{0.05,0.2,0.5,0.8} '
        '(negative only for Frank) plus random tau; sample(n) is observed through an RNG recorder '
        'on copulas.bivariate.base.np: the sample must be the Rosenblatt transform of the recorded '
        'uniforms (sign-change test against the mpmath h-function), then DKW bands on both margins, '
        'a Hoeffding band on Kendall tau and a union-bound band on the joint empirical CDF on a 7x7 '
        'grid; small n in {1,2,17} for shape; non-trivial = recorded draws found and all three '
        'statistical comparisons made; distinct by (family, tau, seed, mode)')
DECIDING = {'sample.rosenblatt': 200, 'sample.margin-dkw': 20, 'sample.tau-band': 10,
            'sample.joint-cdf-band': 10}
ASSUMPTIONS = ['per-comparison false-alarm probability 1e-13, at most 10^4 comparisons per run',
               'the two recorded np.random.uniform vectors are (v, c) in that order']

TAUS = [0.05, 0.2, 0.5, 0.8]


def cases(seed, tier):
    rng = rng_for(seed, 'C09')
    out = []
    seeds = 2 if tier == 'quick' else 30
    n = 4000 if tier == 'quick' else 10000
    for fam in biv.FAMILIES:
        taus = list(TAUS) + ([-t for t in TAUS] if fam == 'frank' else [])
        taus += [float(rng.uniform(0.02, 0.8)) for _ in range(1 if tier == 'quick' else 6)]
        for tau in taus:
            for s in range(seeds):
                out.append({'family': fam, 'tau': tau, 'mode': 'param' if s % 2 == 0 else 'fitted',
                            'n': n, 'rs': int(rng.integers(1 << 31)),
                            'seed_kind': 'int' if s % 3 else 'RandomState',
                            'seed': int(rng.integers(1 << 31))})
        for small in (1, 2, 17):
            out.append({'family': fam, 'tau': 0.4, 'mode': 'param', 'n': small,
                        'rs': int(rng.integers(1 << 31)), 'seed_kind': 'none',
                        'seed': int(rng.integers(1 << 31))})
        # many tiny batches: sample(1) / sample(2) repeated (batch-level shortcuts see one or two rows)
        for tau in (0.8, 0.5):
            out.append({'family': fam, 'tau': tau, 'mode': 'tiny-batches', 'n': 1, 'calls': 300 if tier == 'quick' else 2000,
                        'rs': int(rng.integers(1 << 31)), 'seed_kind': 'int', 'seed': int(rng.integers(1 << 31))})
    # the independence end of the Gumbel range (theta = 1, tau = 0)
    for s2 in range(2 if tier == 'quick' else 8):
        out.append({'family': 'gumbel', 'tau': 0.0, 'mode': 'param', 'n': n, 'rs': int(rng.integers(1 << 31)),
                    'seed_kind': 'int', 'seed': int(rng.integers(1 << 31))})
    return out


def run_case(spec, ctx):
    import copulas.bivariate.base as bb
    fam, tau, n = spec['family'], spec['tau'], spec['n']
    rng = rng_for(spec['seed'])
    where = {'family': fam, 'tau': tau, 'mode': spec['mode'], 'n': n}
    if spec['mode'] == 'fitted':
        th0 = float(arch.theta_from_tau(fam, tau))
        data = samplers.SAMPLERS[fam](th0, 3000, rng)
        model = biv.cls(fam)()
        if spec['seed'] % 2:
            # the instance was fitted before, on data with another dependence, and used
            other = samplers.gaussian(float(rng.uniform(0.1, 0.9)), 500, rng)
            if ctx.call(model.fit, other)[0]:
                ctx.call(model.sample, 3)
            where['refitted'] = True
        ok, exc = ctx.call(model.fit, data)
        if not ok:
            # weakly dependent data can have a sample tau <= 0 by chance: Clayton and Gumbel then rightly refuse (C10)
            tb = rank.tau_b(data[:600, 0], data[:600, 1]) if len(data) <= 600 else float(__import__('scipy.stats').stats.kendalltau(data[:, 0], data[:, 1])[0])
            if isinstance(exc, ValueError) and fam in ('clayton', 'gumbel') and tb <= 0:
                ctx.note('fit refused: sample tau <= 0 for clayton/gumbel (not a sampling case)')
                return
            ctx.violation('sample.fit', 'C09:fit-' + exc_mech(exc), dict(exc_detail(exc), **where, sample_tau=tb))
            return
        theta = float(model.theta)
    else:
        theta = float(arch.theta_from_tau(fam, tau))
        model = biv.make_model(fam, theta)
    if spec['seed_kind'] == 'int':
        model.set_random_state(spec['rs'] % (2 ** 31))
    elif spec['seed_kind'] == 'RandomState':
        model.set_random_state(np.random.RandomState(spec['rs'] % (2 ** 31)))
    ref = arch.Arch(fam, theta)
    tau_model = float(ref.tau())
    where['theta'] = theta
    # "the model's tau": the attribute and the parameter must describe the same copula
    ctx.check(model.tau is not None and abs(model.tau - tau_model) <= (frank_tol(model.tau) if fam == 'frank' else 1e-9),
              'sample.model-tau-is-tau-of-theta', 'C09:model-tau-and-theta-disagree',
              lambda: dict(where, model_tau=model.tau, tau_of_theta=tau_model))

    if spec['mode'] == 'tiny-batches':
        return _tiny(spec, ctx, model, fam, theta, where, bb)
    with interpose.record_random(bb) as log:
        ok, out = ctx.call(model.sample, n)
    if not ok:
        ctx.violation('sample.call', 'C09:' + exc_mech(out), dict(exc_detail(out), **where))
        return
    out = np.asarray(out)
    if not ctx.check(out.shape == (n, 2), 'sample.shape', 'C09:shape', dict(where, shape=list(out.shape))):
        return
    out = out.astype(float)
    ctx.check(np.isfinite(out).all() and (out >= 0).all() and (out <= 1).all(), 'sample.range',
              'C09:out-of-range', lambda: dict(where, bad=out[~((out >= 0) & (out <= 1))][:4]))

    # deterministic layer: the sample is the Rosenblatt transform of the recorded uniforms --------
    draws = [e for e in log if e['fn'] == 'uniform']
    if len(draws) == 2 and all(np.shape(e['result']) == (n,) for e in draws):
        v, c = draws[0]['result'], draws[1]['result']
        ctx.check(np.array_equal(out[:, 1], v), 'sample.second-column-is-v', 'C09:second-column-not-v', where)
        idx = rng.choice(n, size=min(n, 200), replace=False)
        u = out[idx, 0]
        delta = 4e-12 + 4 * np.spacing(u)
        lo = arch.h_array(fam, theta, np.clip(u - delta, 1e-300, 1 - 1e-17), v[idx])
        hi = arch.h_array(fam, theta, np.clip(u + delta, 1e-300, 1 - 1e-17), v[idx])
        slack = 1e-6 * c[idx] + 1e-8
        bad = ~((lo <= c[idx] + slack) & (hi >= c[idx] - slack))
        k = int(np.argmax(bad))
        ctx.check(not bad.any(), 'sample.rosenblatt', 'C09:not-rosenblatt-transform',
                  lambda: dict(where, u=u[k], v=v[idx][k], c=c[idx][k], h_below=lo[k], h_above=hi[k]))
        ctx.ok('sample.rosenblatt', len(idx) - 1)
        recorded = True
    else:
        ctx.inconclusive('sample.rosenblatt', 'recorded-draws-not-two-uniform-vectors',
                         dict(where, calls=[(e['fn'], repr(e['args'])[:60]) for e in log][:6]))
        recorded = False

    if n < 1000:
        ctx.nontriv('%s|%r|%d|small' % (fam, tau, n))
        return
    # statistical layer ---------------------------------------------------------------------------------
    eps = stats.dkw_eps(n)
    for j in (0, 1):
        d = stats.ks_distance(out[:, j], lambda x: np.clip(x, 0, 1))
        ctx.check(d <= eps, 'sample.margin-dkw', 'C09:margin-not-uniform',
                  lambda: dict(where, column=j, ks=d, band=eps))
        ctx.maxstat('margin KS / band', d / eps, where)
    m = min(n, 4000)
    t = rank.tau_b(out[:m, 0], out[:m, 1])
    te = stats.tau_eps(m)
    ctx.check(abs(t - tau_model) <= te, 'sample.tau-band', 'C09:tau-off',
              lambda: dict(where, tau_sample=t, tau_model=tau_model, band=te))
    ctx.maxstat('|tau_sample - tau_model| / band', abs(t - tau_model) / te, where)
    g = np.array([0.05, 0.2, 0.35, 0.5, 0.65, 0.8, 0.95])
    ge = stats.grid_eps(n, 49)
    worst = 0.0
    wat = None
    for a in g:
        for b in g:
            emp = float(np.mean((out[:, 0] <= a) & (out[:, 1] <= b)))
            d = abs(emp - float(ref.cdf(a, b)))
            if d > worst:
                worst, wat = d, (a, b)
    ctx.check(worst <= ge, 'sample.joint-cdf-band', 'C09:joint-cdf-off',
              lambda: dict(where, worst=worst, at=wat, band=ge))
    ctx.maxstat('joint CDF distance / band', worst / ge, where)
    # ... and matches the model's own cumulative_distribution, asked in one batch on the closed grid (boundary rows
    # and interior rows together, as a user plotting the two surfaces would)
    g2 = np.concatenate([[0.0], g, [1.0]])
    A, B = [x.ravel() for x in np.meshgrid(g2, g2, indexing='ij')]
    okc, own = ctx.call(model.cumulative_distribution, np.column_stack([A, B]))
    if not okc:
        ctx.violation('sample.joint-cdf-own', 'C09:cumulative_distribution-' + exc_mech(own), dict(exc_detail(own), **where))
    else:
        own = np.asarray(own, dtype=float)
        emp2 = np.array([np.mean((out[:, 0] <= a) & (out[:, 1] <= b)) for a, b in zip(A, B)])
        ge2 = stats.grid_eps(n, len(A))
        dd = np.abs(emp2 - own)
        dd = np.where(np.isnan(dd), np.inf, dd)
        k = int(np.argmax(dd))
        ctx.check(dd[k] <= ge2, 'sample.joint-cdf-own', 'C09:empirical-joint-cdf-differs-from-cumulative_distribution',
                  lambda: dict(where, worst=float(dd[k]), at=[A[k], B[k]], empirical=emp2[k], cumulative_distribution=own[k], band=ge2))
    # the model's own tau must be the reference tau of its theta (so "the model's tau" is well defined)
    if spec['mode'] == 'param':
        ctx.check(abs(model.tau - tau_model) < 1e-9, 'sample.model-tau', 'C09:model-tau-changed', where)
    if recorded:
        ctx.nontriv('%s|%r|%d|%s' % (fam, tau, spec['rs'], spec['mode']))
    ctx.sample({'family': fam, 'theta': theta, 'n': n, 'first_rows': out[:2].tolist()})


def _tiny(spec, ctx, model, fam, theta, where, bb):
    """sample(1) and sample(2) repeated: every row must still be the Rosenblatt transform of its draws."""
    rows_u, rows_v, rows_c = [], [], []
    for k in range(spec['calls']):
        n = 1 if k % 3 else 2
        with interpose.record_random(bb) as log:
            ok, out = ctx.call(model.sample, n)
        if not ok:
            ctx.violation('sample.call', 'C09:' + exc_mech(out), dict(exc_detail(out), **where))
            return
        draws = [e for e in log if e['fn'] == 'uniform']
        out = np.asarray(out, dtype=float)
        if out.shape != (n, 2) or len(draws) != 2:
            ctx.violation('sample.shape', 'C09:shape', dict(where, shape=list(out.shape), n=n))
            return
        rows_u.extend(out[:, 0]); rows_v.extend(draws[0]['result']); rows_c.extend(draws[1]['result'])
        ctx.check(np.array_equal(out[:, 1], draws[0]['result']), 'sample.second-column-is-v', 'C09:second-column-not-v', where)
    u, v, c = np.array(rows_u), np.array(rows_v), np.array(rows_c)
    delta = 4e-12 + 4 * np.spacing(u)
    lo = arch.h_array(fam, theta, np.clip(u - delta, 1e-300, 1 - 1e-17), v)
    hi = arch.h_array(fam, theta, np.clip(u + delta, 1e-300, 1 - 1e-17), v)
    slack = 1e-6 * c + 1e-8
    bad = ~((lo <= c + slack) & (hi >= c - slack))
    k = int(np.argmax(bad))
    ctx.check(not bad.any(), 'sample.rosenblatt', 'C09:not-rosenblatt-transform',
              lambda: dict(where, u=u[k], v=v[k], c=c[k], h_below=lo[k], h_above=hi[k], rows_bad=int(bad.sum())))
    ctx.ok('sample.rosenblatt', len(u) - 1)
    ctx.nontriv('%s|%r|tiny|%d' % (fam, spec['tau'], spec['rs']))
