"""C05 - marginal model choice: best-KS candidate, filters, per-column config, fallback."""

import numpy as np

from vmon import stats, uni
from vmon.core import exc_detail, exc_mech, rng_for

PROPERTY = 'C05'
RULE = ('selection cases: dataset (C03 kinds, n in {30,300,2000}) x configuration (default, every '
        'parametric/bounded filter combination with a non-empty candidate set, explicit candidate lists '
        'of classes / dotted names / instances of length 1..4 including candidates whose fit raises, '
        'selection_sample_size None/50); recorder probes on select_univariate and kstest capture the '
        'selection sample, the candidate list and each statistic; the oracle refits every candidate on '
        'the recorded sample and recomputes its KS distance; table cases: 2..5 columns x 6 configuration '
        'forms incl. distributions that raise during fit; non-trivial = a selection (or table fit) '
        'completed and was re-derived; distinct by case spec')
DECIDING = {'select.minimal-ks': 80, 'select.candidate-set': 80, 'table.column-family': 100,
            'table.fallback-gaussian': 10}
ASSUMPTIONS = ['KS distance = sup of |F_n - F| over both sides of each jump (same definition as scipy.stats.kstest)',
               'family tags (parametric/bounded) taken from the documentation table in this module']

TAGS = {  # class name -> (parametric, bounded)
    'BetaUnivariate': ('PARAMETRIC', 'BOUNDED'), 'GammaUnivariate': ('PARAMETRIC', 'SEMI_BOUNDED'),
    'GaussianUnivariate': ('PARAMETRIC', 'UNBOUNDED'), 'GaussianKDE': ('NON_PARAMETRIC', 'UNBOUNDED'),
    'LogLaplace': ('PARAMETRIC', 'SEMI_BOUNDED'), 'StudentTUnivariate': ('PARAMETRIC', 'UNBOUNDED'),
    'TruncatedGaussian': ('PARAMETRIC', 'BOUNDED'), 'UniformUnivariate': ('PARAMETRIC', 'BOUNDED'),
}


class AlwaysFails:
    """A candidate whose fit raises (deliberately not a Univariate subclass, so that it does not
    join the default candidate set of this process)."""

    def __init__(self, *a, **k):
        pass

    def fit(self, X):
        raise ValueError('this candidate cannot be fitted')


class FailsRuntime(AlwaysFails):
    def fit(self, X):
        raise RuntimeError('this candidate cannot be fitted either')


class FailsType(AlwaysFails):
    def fit(self, X):
        raise TypeError('unsupported operand in this candidate')


class FailsAttribute(AlwaysFails):
    def fit(self, X):
        raise AttributeError('this candidate lacks an attribute')


class FailsArithmetic(AlwaysFails):
    def fit(self, X):
        raise ZeroDivisionError('division by zero inside the estimator')


class FailsLinAlg(AlwaysFails):
    def fit(self, X):
        raise np.linalg.LinAlgError('singular matrix inside the estimator')


def failing_distribution(k):
    """Distributions that cannot be fitted, by the exception type their fit ends with; the last one is
    built from the library's own parts (a selecting wrapper none of whose candidates can be fitted)."""
    import copulas.univariate as cu
    k = k % 7
    if k == 0:
        return AlwaysFails
    if k == 1:
        return FailsRuntime()
    if k == 2:
        return FailsType
    if k == 3:
        return FailsAttribute()
    if k == 4:
        return FailsArithmetic
    if k == 5:
        return FailsLinAlg()
    return cu.Univariate(candidates=[AlwaysFails, FailsType])


def expected_candidates(parametric, bounded):
    return sorted(n for n, (p, b) in TAGS.items()
                  if (parametric is None or p == parametric) and (bounded is None or b == bounded))


def cases(seed, tier):
    rng = rng_for(seed, 'C05')
    out = []
    filt = [(p, b) for p in (None, 'PARAMETRIC', 'NON_PARAMETRIC') for b in (None, 'BOUNDED', 'SEMI_BOUNDED', 'UNBOUNDED')
            if expected_candidates(p, b)]
    names = sorted(TAGS)
    reps = 8 if tier == 'quick' else 250
    for r in range(reps):
        for (p, b) in filt:
            out.append({'mode': 'select', 'config': {'parametric': p, 'bounded': b},
                        'data': {'kind': str(rng.choice(uni.DATA_KINDS)), 'n': int(rng.choice([30, 300, 2000])),
                                 'seed': int(rng.integers(1 << 31))}})
        for k in (1, 2, 3, 4):
            cands = [str(c) for c in rng.choice(names, size=k, replace=False)]
            forms = []
            for c in cands:
                f = int(rng.integers(3))
                forms.append(c if f == 0 else ('name:copulas.univariate.' + c if f == 1 else {'cls': c}))
            if rng.random() < 0.6:
                forms.insert(int(rng.integers(len(forms) + 1)), 'FAILS' if rng.random() < 0.5 else 'FAILS_RT')
            out.append({'mode': 'select', 'config': {'candidates': forms},
                        'data': {'kind': str(rng.choice(uni.DATA_KINDS)), 'n': int(rng.choice([30, 300, 2000])),
                                 'seed': int(rng.integers(1 << 31))}})
        # selection sample smaller than, equal to and larger than the data
        out.append({'mode': 'select', 'config': {'selection_sample_size': 50},
                    'data': {'kind': str(rng.choice(uni.DATA_KINDS)), 'n': [2000, 50, 30, 51][r % 4], 'seed': int(rng.integers(1 << 31))}})
    for r in range(12 if tier == 'quick' else 700):
        for form in ('default', 'class', 'name', 'instance', 'dict', 'failing'):
            out.append({'mode': 'table', 'form': form, 'd': int(rng.integers(2, 6)), 'n': int(rng.choice([60, 400])),
                        'seed': int(rng.integers(1 << 31))})
    return out


def _candidates(forms, data):
    import copulas.univariate as cu
    out = []
    for c in forms:
        if c == 'FAILS':
            out.append(AlwaysFails)
        elif c == 'FAILS_RT':
            out.append(FailsRuntime())
        elif isinstance(c, dict):
            out.append(getattr(cu, c['cls'])())
        elif c.startswith('name:'):
            out.append(c[5:])
        else:
            out.append(getattr(cu, c))
    return out


def _cname(c):
    if isinstance(c, str):
        return c.rsplit('.', 1)[1]
    if isinstance(c, type):
        return c.__name__
    return type(c).__name__


def _select(spec, ctx):
    import copulas.univariate as cu
    import copulas.univariate.base as ub
    import copulas.univariate.selection as sel
    from copulas.utils import get_instance
    data = uni.make_data(spec['data'])
    cfg = spec['config']
    where = {'config': cfg, 'data': spec['data']['kind'], 'n': len(data)}
    kwargs = {}
    if 'candidates' in cfg:
        kwargs['candidates'] = _candidates(cfg['candidates'], data)
    if cfg.get('parametric'):
        kwargs['parametric'] = cu.ParametricType[cfg['parametric']]
    if cfg.get('bounded'):
        kwargs['bounded'] = cu.BoundedType[cfg['bounded']]
    if cfg.get('selection_sample_size'):
        kwargs['selection_sample_size'] = cfg['selection_sample_size']
    model = cu.Univariate(**kwargs)

    # recorder probes ---------------------------------------------------------------------------
    rec = {'select': [], 'ks': []}
    real_select, real_ks = ub.select_univariate, sel.kstest

    def select_probe(X, candidates):
        rec['select'].append((np.array(X, dtype=float, copy=True), list(candidates)))
        return real_select(X, candidates)

    def ks_probe(X, cdf, *a, **k):
        res = real_ks(X, cdf, *a, **k)
        rec['ks'].append((getattr(cdf, '__self__', None), float(res[0])))
        return res
    if spec['data']['seed'] % 2:
        # the same object was used before, on data favouring another family: selection must start afresh
        other = uni.make_data({'kind': 'uniform' if spec['data']['kind'] != 'uniform' else 'heavy', 'n': 200,
                               'seed': spec['data']['seed'] + 1})
        ctx.call(model.fit, other)
        where['refit'] = True
    ub.select_univariate, sel.kstest = select_probe, ks_probe
    np.random.seed(spec['data']['seed'] % (2 ** 31))
    try:
        ok, exc = ctx.call(model.fit, data.copy())
    finally:
        ub.select_univariate, sel.kstest = real_select, real_ks
    if not ok:
        ctx.violation('select.fit', 'C05:univariate-fit-' + exc_mech(exc), dict(exc_detail(exc), **where))
        return
    if not ctx.check(len(rec['select']) == 1, 'select.recorded', 'C05:select_univariate-not-called-once',
                     dict(where, calls=len(rec['select']))):
        return
    sample, used = rec['select'][0]
    # candidate set ---------------------------------------------------------------------------------
    used_names = [_cname(c) for c in used]
    if 'candidates' in cfg:
        want = [_cname(c) for c in kwargs['candidates']]
        ctx.check(used_names == want, 'select.candidate-set', 'C05:explicit-candidates-not-used-verbatim',
                  lambda: dict(where, used=used_names, want=want))
    else:
        want = expected_candidates(cfg.get('parametric'), cfg.get('bounded'))
        ctx.check(sorted(used_names) == want, 'select.candidate-set', 'C05:filtered-candidate-set-wrong',
                  lambda: dict(where, used=sorted(used_names), want=want))
    # selection sample: the data, or a subsample of the requested size drawn from it
    sss = cfg.get('selection_sample_size')
    if sss and sss < len(data):
        ctx.check(len(sample) == sss and np.isin(sample, data).all(), 'select.sample', 'C05:selection-sample-wrong',
                  lambda: dict(where, got=len(sample), want=sss))
    else:
        ctx.check(len(sample) == len(data) and np.array_equal(sample, data), 'select.sample',
                  'C05:selection-sample-wrong', lambda: dict(where, got=len(sample), want=len(data)))
    # independent re-selection ------------------------------------------------------------------------
    scores = []
    for c in used:
        try:
            inst = get_instance(c)
            inst.fit(sample.copy())
            ks = stats.ks_distance(sample, inst.cdf)
            if not np.isnan(ks):
                scores.append((_cname(c), float(ks)))
        except Exception:  # noqa: BLE001 - not fit-able: not a candidate
            pass
    if not scores:
        ctx.note('no fit-able candidate (outside the property)')
        return
    best = min(s for _, s in scores)
    inner = getattr(model, '_instance', None)
    chosen = type(inner).__name__ if inner is not None else uni.selected_family(model)
    mine = [s for n, s in scores if n == chosen]
    ctx.check(bool(mine) and min(mine) <= best + 1e-12, 'select.minimal-ks', 'C05:selected-candidate-not-minimal-ks',
              lambda: dict(where, chosen=chosen, chosen_ks=min(mine) if mine else None, scores=scores))
    ctx.maxstat('chosen KS - best KS', (min(mine) - best) if mine else 1.0, where)
    # the statistics the library computed are the KS distances of those fits
    lib = {}
    for inst, ks in rec['ks']:
        lib.setdefault(type(inst).__name__, []).append(ks)
    for n, s in scores:
        if n in lib:
            ctx.check(min(abs(v - s) for v in lib[n]) <= 1e-9, 'select.ks-statistic', 'C05:ks-statistic-differs',
                      lambda: dict(where, candidate=n, library=lib[n], recomputed=s))
    okd, d = ctx.call(model.to_dict)
    ctx.check(okd and d.get('type', '').rsplit('.', 1)[-1] == chosen, 'select.to_dict-type', 'C05:to_dict-type-not-selected',
              lambda: dict(where, chosen=chosen, got=d.get('type') if okd else repr(d)))
    ctx.nontriv('select|%r|%s|%d' % (cfg, spec['data']['kind'], spec['data']['seed']))
    ctx.sample({'config': cfg, 'data': spec['data'], 'chosen': chosen, 'scores': scores})


def _table(spec, ctx):
    import pandas as pd
    import copulas.univariate as cu
    from copulas.multivariate import GaussianMultivariate
    rng = rng_for(spec['seed'], 'table')
    d, n, form = spec['d'], spec['n'], spec['form']
    label_kind = int(rng.integers(4))
    cols = [['c%d' % i for i in range(d)], list(range(d)), [2000 + 3 * i for i in range(d)],
            [('grp', i) for i in range(d)]][label_kind]
    as_array = label_kind == 1 and rng.random() < 0.5       # ndarray input: columns become 0..d-1
    z = rng.normal(size=(n, d)) @ rng.normal(size=(d, d))
    kinds = rng.integers(0, 4, d)
    X = np.column_stack([[z[:, i], np.exp(z[:, i] / 3), z[:, i] ** 2 + rng.random(n), np.tanh(z[:, i])][kinds[i]]
                         for i in range(d)])
    df = pd.DataFrame(X, columns=cols)
    where = {'form': form, 'd': d, 'n': n, 'labels': ['str', 'int', 'int-year', 'tuple'][label_kind], 'ndarray': bool(as_array)}
    names = sorted(TAGS)
    expect = {}            # column -> expected class name (None: the selecting wrapper)
    opts = {}
    if form == 'default':
        dist = None
        expect = {c: None for c in cols}
    elif form == 'class':
        k = str(rng.choice(names))
        dist = getattr(cu, k)
        expect = {c: k for c in cols}
    elif form == 'name':
        k = str(rng.choice(names))
        dist = 'copulas.univariate.' + k
        expect = {c: k for c in cols}
    elif form == 'instance':
        if rng.random() < 0.25:
            # a prototype whose meaningful option is falsy: lower bound exactly 0 on a positive table
            df = df - df.min() + 0.5
            X = df.to_numpy()
            dist = cu.TruncatedGaussian(minimum=0, maximum=float(X.max() * 2 + 1))
            expect = {c: 'TruncatedGaussian' for c in cols}
            opts = {c: ('min', 0) for c in cols}
        elif rng.random() < 0.5:
            bw = float(rng.choice([0.2, 0.5]))
            dist = cu.GaussianKDE(bw_method=bw)
            expect = {c: 'GaussianKDE' for c in cols}
            opts = {c: ('bw_method', bw) for c in cols}
        elif rng.random() < 0.5:
            dist = cu.Univariate(parametric=cu.ParametricType.PARAMETRIC, bounded=cu.BoundedType.UNBOUNDED)
            expect = {c: ('GaussianUnivariate', 'StudentTUnivariate') for c in cols}
        elif rng.random() < 0.5:
            dist = cu.Univariate([cu.GaussianUnivariate, cu.UniformUnivariate])          # options given positionally
            expect = {c: ('GaussianUnivariate', 'UniformUnivariate') for c in cols}
        else:
            dist = cu.TruncatedGaussian(-1e7, 1e7)                                        # positional bounds
            expect = {c: 'TruncatedGaussian' for c in cols}
            opts = {c: ('min', -1e7) for c in cols}
    elif form == 'dict':
        dist = {}
        for c in cols:
            if rng.random() < 0.6:
                k = str(rng.choice(names))
                f = int(rng.integers(3))
                dist[c] = getattr(cu, k) if f == 0 else ('copulas.univariate.' + k if f == 1 else getattr(cu, k)())
                expect[c] = k
            else:
                expect[c] = None
        dist['not_a_column'] = cu.BetaUnivariate
    else:  # failing distributions -> Gaussian fallback
        dist = {}
        for i, c in enumerate(cols):
            r = i % 3 if i < 3 else int(rng.integers(4))
            if r in (0, 1):
                dist[c] = failing_distribution(int(rng.integers(7)))
                expect[c] = 'FALLBACK'
            elif r == 2:
                dist[c] = cu.GaussianUnivariate
                expect[c] = 'GaussianUnivariate'
            else:
                expect[c] = None
    model = GaussianMultivariate(distribution=dist) if dist is not None else GaussianMultivariate()
    ok, exc = ctx.call(model.fit, df.to_numpy().copy() if as_array else df.copy())
    if not ok:
        ctx.violation('table.fit', 'C05:table-fit-' + exc_mech(exc), dict(exc_detail(exc), **where))
        return
    ctx.check(list(model.columns) == cols and len(model.univariates) == d, 'table.columns', 'C05:table-columns',
              lambda: dict(where, columns=list(model.columns)))
    for c, u in zip(model.columns, model.univariates):
        e = expect.get(c)
        got = type(u).__name__
        if e == 'FALLBACK':
            x = df[c].to_numpy()
            p = getattr(u, '_params', {}) or {}
            ctx.check(got == 'GaussianUnivariate' and abs(p.get('loc', np.nan) - x.mean()) <= 1e-12 * max(1, abs(x.mean()))
                      and abs(p.get('scale', np.nan) - x.std()) <= 1e-12 * x.std(), 'table.fallback-gaussian',
                      'C05:fallback-not-closed-form-gaussian', lambda: dict(where, column=c, got=got, params=p))
        elif e is None:
            ctx.check(got == 'Univariate' and getattr(u, '_instance', None) is not None, 'table.column-family',
                      'C05:default-column-not-selecting-wrapper', lambda: dict(where, column=c, got=got))
        elif isinstance(e, tuple):
            ctx.check(got == 'Univariate' and type(u._instance).__name__ in e, 'table.column-family',
                      'C05:prototype-options-lost', lambda: dict(where, column=c, got=got,
                                                                 inner=type(getattr(u, '_instance', None)).__name__))
        else:
            if got == 'GaussianUnivariate' and e != got:
                # legitimate only if the configured family really cannot be fitted to this column
                probe_model = getattr(cu, e)()
                okf, _ = ctx.call(probe_model.fit, df[c].copy())
                if not okf:
                    x = df[c].to_numpy()
                    p = getattr(u, '_params', {}) or {}
                    ctx.check(abs(p.get('loc', np.nan) - x.mean()) <= 1e-12 * max(1, abs(x.mean()))
                              and abs(p.get('scale', np.nan) - x.std()) <= 1e-12 * x.std(), 'table.fallback-gaussian',
                              'C05:fallback-not-closed-form-gaussian', lambda: dict(where, column=c, params=p))
                    ctx.note('configured family refused the column (scipy FitError): Gaussian fallback observed')
                    continue
            ctx.check(got == e, 'table.column-family', 'C05:column-family-not-configured-one',
                      lambda: dict(where, column=c, got=got, want=e))
            if c in opts:
                ctx.check(getattr(u, opts[c][0], None) == opts[c][1], 'table.prototype-options',
                          'C05:prototype-options-lost', lambda: dict(where, column=c, option=opts[c],
                                                                     got=getattr(u, opts[c][0], None)))
        okd, dd = ctx.call(u.to_dict)
        if okd and e not in (None, 'FALLBACK') and not isinstance(e, tuple):
            ctx.check(dd.get('type', '').endswith('.' + e), 'table.to_dict-type', 'C05:table-to_dict-type',
                      lambda: dict(where, column=c, type=dd.get('type'), want=e))
    ctx.nontriv('table|%s|%d' % (form, spec['seed']))
    ctx.sample({'mode': 'table', 'form': form, 'd': d, 'n': n,
                'fitted': [type(u).__name__ for u in model.univariates]})


def run_case(spec, ctx):
    if spec['mode'] == 'select':
        return _select(spec, ctx)
    return _table(spec, ctx)
