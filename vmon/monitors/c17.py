"""C17 - vine pair-copula data flow, likelihood and sampling are coherent."""

import numpy as np

from vmon import biv, interpose, stats, vines
from vmon.core import EPS32, exc_detail, exc_mech, rng_for
from vmon.refs import arch, rank

PROPERTY = 'C17'
RULE = ('fit cases: tables of C16 (d in 2..6), 3 vine types x truncations, np.empty poisoned with a '
        'sentinel; a recorder on copulas.bivariate.select_copula captures every selection made during fit; '
        'a variable-keyed reference recursion ((variable | conditioning set) -> pseudo-observation) '
        'recomputes, for every edge, its two input columns from its parents, the copula select_copula '
        'returns on them, both h-function rows, and the vine log-likelihood at u in (0,1)^d (uniform and '
        'near-corner); get_likelihood is called twice and under a second sentinel; sampling cells: '
        '2-column tables from each family at tau in {0.2,0.5,0.7}, DKW band per column against the fitted '
        'marginal and Hoeffding band on Kendall tau; non-trivial = every edge of a fitted vine was '
        're-derived; distinct by case spec')
DECIDING = {'edge.copula-is-selected-one': 300, 'edge.U-is-h-of-inputs': 300, 'likelihood.reference': 80,
            'likelihood.deterministic': 80, 'sample.schema': 20, 'sample.marginal-dkw': 12, 'sample.tau-band': 6}
ASSUMPTIONS = ['h-functions: the family classes\' own partial_derivative (tied to the mpmath reference by C07) on all '
               'rows plus the mpmath reference on 30 rows per edge',
               'the reference recursion was validated on every center vine and every <=2-tree vine']

FAM = {0: 'clayton', 1: 'frank', 2: 'gumbel'}


# regression witnesses of repaired findings (a fixed entry in known_findings.json suppresses nothing: if the
# defect returns, these cases report it in every run, whatever the seed)
PINNED = [
    # F33: a Clayton h-value of 1 + 2e-16 in tree 3 escaped the {0,1} correction
    {'mode': 'fit', 'table': {'d': 5, 'n': 200, 'pattern': 'ties', 'perm': [1, 3, 2, 0, 4], 'seed': 620322134},
     'vine_type': 'regular', 'truncated': 10, 'sentinel': 'neg', 'seed': 935348027},
]


def cases(seed, tier):
    rng = rng_for(seed, 'C17')
    out = [dict(c) for c in PINNED]
    for r in range(150 if tier == 'quick' else 7000):
        d = int(rng.choice([2, 3, 4, 5, 6], p=[.1, .25, .3, .2, .15]))
        perm = [int(x) for x in rng.permutation(d)]
        out.append({'mode': 'fit', 'table': {'d': d, 'n': int(rng.choice([60, 200])),
                                              'pattern': str(rng.choice(['gram', 'equi', 'negative', 'block', 'monotone', 'ties', 'near_monotone'])),
                                              'perm': perm, 'seed': int(rng.integers(1 << 31))},
                    'vine_type': ['center', 'direct', 'regular'][r % 3], 'truncated': int(rng.choice([1, 2, 3, 10], p=[.1, .2, .3, .4])),
                    'sentinel': str(rng.choice(['pos', 'neg', 'nan'])), 'seed': int(rng.integers(1 << 31))})
    # two almost perfectly monotone columns: the h-functions reach 0 and 1 in floating point and the
    # documented {0,1} -> {EPS, 1-EPS} correction is what keeps the pseudo-observations inside (0,1)
    for r in range(240 if tier == 'quick' else 3000):
        out.append({'mode': 'fit', 'table': {'d': 2, 'n': int(rng.choice([50, 100, 200])),
                                              'pattern': 'near_monotone' if r % 4 == 0 else 'near_monotone_exp', 'perm': [0, 1],
                                              'seed': int(rng.integers(1 << 31))},
                    'vine_type': ['center', 'direct', 'regular'][r % 3], 'truncated': 3, 'sentinel': 'pos',
                    'seed': int(rng.integers(1 << 31))})
    cells = [(f, t) for f in biv.FAMILIES for t in (0.2, 0.5, 0.7)]
    for i, (f, t) in enumerate(cells if tier == 'quick' else cells * 6):
        out.append({'mode': 'sample2', 'family': f, 'tau': t, 'vine_type': ['center', 'direct', 'regular'][i % 3],
                    'n_sample': 600 if tier == 'quick' else 1500, 'seed': int(rng.integers(1 << 31))})
    for r in range(12 if tier == 'quick' else 120):
        out.append({'mode': 'sample_schema', 'd': int(rng.integers(2, 6)), 'vine_type': ['center', 'direct', 'regular'][r % 3],
                    'truncated': int(rng.choice([1, 2, 10])), 'seed': int(rng.integers(1 << 31))})
    return out


def _copula(name, theta):
    m = biv.cls(FAM[name.value])()
    m.theta = theta
    return m


def _h(copula, x, y):
    """h(x | y) = dC/dv at (u=x, v=y) with the library's documented 0/1 correction."""
    out = np.asarray(copula.partial_derivative(np.column_stack([x, y])), dtype=float).copy()
    out[out <= 0] = EPS32             # also values that rounding left an ulp outside [0, 1] (finding F33)
    out[out >= 1] = 1 - EPS32
    return out


def positional_rule_ok(edge):
    """Does the implementation's positional lookup pick the rows of the required variables?
    (pure function of edge labels; mechanism of known finding F22)"""
    lp, rp = edge.parents
    left, right = sorted(vines.edge_vars(lp) ^ vines.edge_vars(rp))
    fit_ok = left in (int(lp.L), int(lp.R)) and right in (int(rp.L), int(rp.R))
    lik_ok = int(edge.L) in vines.edge_vars(edge.parents[0]) and int(edge.R) in vines.edge_vars(edge.parents[1])
    return fit_ok, lik_ok


def required_inputs(edge):
    """Input columns of an edge of tree >= 2, selected by VARIABLE from the parents' U rows."""
    L, R = int(edge.L), int(edge.R)
    out = {}
    for var in (L, R):
        for p in edge.parents:
            if var == int(p.L):
                out[var] = np.asarray(p.U[0], dtype=float)
            elif var == int(p.R):
                out[var] = np.asarray(p.U[1], dtype=float)
    return out.get(L), out.get(R)


SUPPORTED = {'clayton': lambda th: 0 < th <= 8, 'gumbel': lambda th: 1 <= th <= 5, 'frank': lambda th: 0 < abs(th) <= 18.2}


def ref_likelihood(model, u, use_mpmath):
    """Sum over all edges of log c_e at the h-propagated arguments, by a variable-keyed recursion
    ((variable | conditioning set) -> value).  With use_mpmath the pair densities and h-functions
    come from the mpmath reference (judged only when every theta is in the range property C07
    covers); otherwise from the family classes themselves, which isolates the data flow."""
    v = {(j, frozenset()): float(u[j]) for j in range(len(u))}
    total = 0.0
    ref_likelihood.arg_range = [1.0, 0.0]
    for tree in model.trees:
        new = {}
        for e in tree.edges:
            L, R, D = int(e.L), int(e.R), frozenset(int(x) for x in e.D)
            x, y = v[(L, D)], v[(R, D)]
            ref_likelihood.arg_range = [min(ref_likelihood.arg_range[0], x, y), max(ref_likelihood.arg_range[1], x, y)]
            if use_mpmath:
                a = arch.Arch(FAM[e.name.value], e.theta)
                total += float(arch.mp.log(a.pdf(x, y)))
                new[(L, D | {R})] = float(a.h(x, y))
                new[(R, D | {L})] = float(a.h(y, x))
            else:
                c = _copula(e.name, e.theta)
                total += float(np.log(np.sum(c.probability_density(np.array([[x, y]])))))
                new[(L, D | {R})] = float(np.ravel(c.partial_derivative(np.array([[x, y]])))[0])
                new[(R, D | {L})] = float(np.ravel(c.partial_derivative(np.array([[y, x]])))[0])
        v = new
    return total


def all_supported(model):
    return all(SUPPORTED[FAM[e.name.value]](e.theta) for t in model.trees for e in t.edges)


def _fit_case(spec, ctx):
    import copulas.bivariate as cb
    import copulas.multivariate.tree as tree_mod
    import copulas.multivariate.vine as vine_mod
    t = spec['table']
    df = vines.make_table(t)
    d = t['d']
    where = {'vine_type': spec['vine_type'], 'truncated': spec['truncated'], 'd': d, 'pattern': t['pattern'],
             'sentinel': spec['sentinel']}
    rng = rng_for(spec['seed'], 'fitcase')
    recorded = []
    real = cb.select_copula

    def probe(X):
        res = real(X)
        recorded.append((np.array(X, dtype=float, copy=True), res.copula_type, res.theta))
        return res
    cb.select_copula = probe
    past = vines.past_table(df, rng) if spec['seed'] % 3 == 0 else None
    if past is not None:
        where['refitted'] = True
    try:
        model, poison = vines.fit(ctx, spec['vine_type'], df, spec['truncated'], spec['sentinel'], past=past)
    finally:
        cb.select_copula = real
    if poison is None:
        if vines.is_refusal(model):
            ctx.note('fit refused with ValueError')
            return
        ctx.violation('vine.fit', 'C17:fit-' + exc_mech(model), dict(exc_detail(model), **where))
        return
    Umat = np.asarray(model.u_matrix, dtype=float)
    all_edges_ok = True
    fit_rule_broken = False
    lik_rule_broken = False
    n_edges = 0
    for k, tree in enumerate(model.trees, start=1):
        for e in tree.edges:
            n_edges += 1
            L, R = int(e.L), int(e.R)
            we = dict(where, tree=k, edge=[L, R, sorted(int(x) for x in e.D)])
            if k == 1:
                xL, xR = Umat[:, L], Umat[:, R]
                rule_ok = True
            else:
                xL, xR = required_inputs(e)
                f_ok, l_ok = positional_rule_ok(e)
                rule_ok = f_ok
                fit_rule_broken |= not f_ok
                lik_rule_broken |= not l_ok
            suffix = '' if rule_ok else ':inputs-selected-by-position'
            # pair copulas far outside the numerically supported range (near-duplicate columns give
            # Gumbel theta > 100) have h-functions that under/overflow to NaN: its own mechanism
            extreme = '' if SUPPORTED[FAM[e.name.value]](e.theta) else ':theta-outside-supported-range'
            if xL is None or xR is None:
                ctx.violation('edge.inputs', 'C17:edge-inputs-not-available-from-parents', we)
                all_edges_ok = False
                continue
            # (a) the pair copula is the one select_copula returns for these two columns
            X = np.column_stack([xL, xR])
            ok, sel = ctx.call(real, X)
            if not ok:
                ok, sel = ctx.call(real, X[:, ::-1].copy())
            if not ok:
                ctx.violation('edge.copula-is-selected-one', 'C17:select_copula-on-edge-inputs-' + exc_mech(sel) + suffix,
                              dict(exc_detail(sel), **we))
                all_edges_ok = False
                continue
            same = (sel.copula_type == e.name and
                    (sel.theta == e.theta or abs(sel.theta - e.theta) <= 1e-9 * max(1, abs(e.theta))))
            if not same:
                ok2, sel2 = ctx.call(real, X[:, ::-1].copy())
                same = ok2 and sel2.copula_type == e.name and abs(sel2.theta - e.theta) <= 1e-9 * max(1, abs(e.theta))
            ctx.check(same, 'edge.copula-is-selected-one', 'C17:edge-copula-not-selection-on-its-inputs' + suffix,
                      lambda: dict(we, edge_copula=[e.name.name, e.theta], selected=[sel.copula_type.name, sel.theta]))
            all_edges_ok &= bool(same)
            # evidence only: how the fit reached select_copula is an implementation choice, the deciding oracle
            # is the re-selection above
            if any(r[1] == e.name and (r[2] == e.theta) for r in recorded):
                ctx.ok('edge.copula-was-recorded')
            else:
                ctx.note('edge copula not among the selections recorded on copulas.bivariate.select_copula')
            # (b) the attached pseudo-observations are the h-functions of that copula on those inputs
            cop = _copula(e.name, e.theta)
            okh, hs = ctx.call(lambda: (_h(cop, xL, xR), _h(cop, xR, xL)))
            if okh:
                raw = np.asarray(cop.partial_derivative(np.column_stack([xR, xL])), dtype=float)
                sat = int(((raw == 0) | (raw == 1)).sum())
                if sat:
                    ctx.note('edges whose raw h-values saturate at exactly 0 or 1 (correction exercised)')
            U = np.asarray(e.U, dtype=float)
            if okh and U.shape == (2, len(xL)):
                H = np.vstack(hs)
                with np.errstate(all='ignore'):
                    e_ = np.abs(U - H) / (1e-9 * np.abs(H) + 1e-12)
                e_ = np.where((U == H) | (np.isnan(U) & np.isnan(H)), 0.0, e_)      # equal infinities / NaNs agree
                err = float(np.max(np.where(np.isnan(e_), np.inf, e_)))
                good = bool(err <= 1) and np.isfinite(U).all()
                # the values ARE the class's h-function of the inputs, but that function under/overflowed
                nan_only = extreme and err <= 1 and not np.isfinite(U).all()
                ctx.check(good, 'edge.U-is-h-of-inputs', 'C17:edge-U-not-h-function-of-inputs' + suffix +
                          (':nan-h-values' + extreme if nan_only else ''), lambda: dict(we, worst=float(err), theta=e.theta))
                all_edges_ok &= good
                # mpmath reference on a few rows (ties the class h to the definition once more)
                idx = rng.choice(len(xL), size=min(30, len(xL)), replace=False)
                fam = FAM[e.name.value]
                inside = (xL[idx] >= 1e-4) & (xL[idx] <= 1 - 1e-4) & (xR[idx] >= 1e-4) & (xR[idx] <= 1 - 1e-4)
                if inside.any() and SUPPORTED[fam](e.theta):
                    ref0 = arch.h_array(fam, e.theta, xL[idx][inside], xR[idx][inside])
                    ctx.check(np.allclose(hs[0][idx][inside], np.where(ref0 == 0, EPS32, np.where(ref0 == 1, 1 - EPS32, ref0)), rtol=1e-6, atol=1e-8),
                              'edge.h-reference', 'C17:class-h-differs-from-reference', we)
            else:
                ctx.violation('edge.U-is-h-of-inputs', 'C17:edge-U-missing-or-wrong-shape' + suffix,
                              dict(we, shape=list(U.shape)))
                all_edges_ok = False
            strict = bool(((U > 0) & (U < 1)).all()) if U.size else False
            nonfinite = bool(U.size and not np.isfinite(U).all())
            touches = bool(U.size and np.isfinite(U).all() and ((U == 0) | (U == 1)).any())
            ctx.check(strict, 'edge.U-strictly-inside', 'C17:edge-U-not-strictly-inside-unit-interval' +
                      ((':nonfinite' + extreme) if nonfinite else (':exactly-0-or-1' if touches else ':beyond-unit-interval' + extreme)),
                      lambda: dict(we, min=float(np.nanmin(U)), max=float(np.nanmax(U)), nan=int(np.isnan(U).sum()), theta=e.theta, family=e.name.name))
    ctx.distinct('vines with a positional-lookup mismatch (F22 mechanism)', (spec['seed'], fit_rule_broken, lik_rule_broken)) \
        if (fit_rule_broken or lik_rule_broken) else None
    # (c) likelihood ----------------------------------------------------------------------------------------
    us = [rng.uniform(0.02, 0.98, size=d), rng.uniform(1e-3, 5e-3, size=d), 1 - rng.uniform(1e-3, 5e-3, size=d),
          np.where(rng.random(d) < 0.5, 1e-3, 1 - 1e-3)]
    suffix = ':inputs-selected-by-position' if (lik_rule_broken or fit_rule_broken) else ''
    for u in us:
        U1 = u.reshape(1, -1)
        wl = dict(where, u=u.tolist())
        vals = []
        for sent in (spec['sentinel'], 'neg' if spec['sentinel'] != 'neg' else 'pos'):
            with interpose.poison_empty(vines.SENTINELS[sent], tree_mod, vine_mod):
                ok, v = ctx.call(model.get_likelihood, U1.copy())
            vals.append(v if ok else exc_mech(v))
            if not ok:
                ctx.violation('likelihood.call', 'C17:get_likelihood-' + exc_mech(v) + suffix, dict(exc_detail(v), **wl))
        with interpose.poison_empty(vines.SENTINELS[spec['sentinel']], tree_mod, vine_mod):
            ok, v3 = ctx.call(model.get_likelihood, U1.copy())
        if isinstance(vals[0], str) or isinstance(vals[1], str) or not ok:
            continue
        same = (vals[0] == v3 or (np.isnan(vals[0]) and np.isnan(v3))) and \
               (vals[0] == vals[1] or (np.isnan(vals[0]) and np.isnan(vals[1])))
        ctx.check(same, 'likelihood.deterministic', 'C17:likelihood-depends-on-uninitialised-memory' + suffix,
                  lambda: dict(wl, first=vals[0], second_sentinel=vals[1], repeat=v3))
        okr, ref = ctx.call(ref_likelihood, model, u, False)
        if okr:
            good = (np.isnan(ref) and np.isnan(vals[0])) or vals[0] == ref or \
                (np.isfinite(ref) and np.isfinite(vals[0]) and abs(vals[0] - ref) <= 1e-9 * max(1.0, abs(ref)))
            ctx.check(good, 'likelihood.reference', 'C17:likelihood-not-sum-of-log-pair-densities' + suffix,
                      lambda: dict(wl, got=vals[0], ref=ref, reference='variable-keyed recursion over the family classes'))
            if not suffix and np.isfinite(vals[0]) and np.isfinite(ref):
                ctx.maxstat('|likelihood - reference| (rule-consistent vines)', abs(vals[0] - ref), where)
        if all_supported(model) and 1e-4 <= u.min() and u.max() <= 1 - 1e-4:
            okm, refm = ctx.call(ref_likelihood, model, u, True)
            lo_, hi_ = ref_likelihood.arg_range
            if not (lo_ >= 1e-4 and hi_ <= 1 - 1e-4):
                ctx.note('mpmath cross-check skipped: h-propagated arguments leave [1e-4, 1-1e-4]')
            elif okm and np.isfinite(refm) and okr and np.isfinite(ref):
                # ties the class-function recursion to the definitions (density/h accuracy is C07's subject)
                ctx.check(abs(ref - refm) <= 1e-5 * max(1.0, abs(refm)), 'likelihood.mpmath-cross-check',
                          'C17:class-function-recursion-differs-from-mpmath-recursion',
                          lambda: dict(wl, classes=ref, mpmath=refm))
    if all_edges_ok:
        ctx.nontriv('%r' % sorted(spec.items(), key=str))
    ctx.note('edges re-derived', n_edges)
    ctx.sample({'table': t, 'vine_type': spec['vine_type'], 'truncated': spec['truncated'], 'edges': n_edges,
                'selections_recorded': len(recorded)})


def _sample2(spec, ctx):
    """Two-column table: the sample reproduces the fitted marginals and the pair copula's tau."""
    import pandas as pd
    from scipy import stats as st
    from vmon.refs import samplers
    fam, tau = spec['family'], spec['tau']
    rng = rng_for(spec['seed'], 's2')
    th = float(arch.theta_from_tau(fam, tau))
    Uv = samplers.SAMPLERS[fam](th, 400, rng)
    df = pd.DataFrame({'a': st.norm(2, 1.5).ppf(Uv[:, 0]), 'b': st.gamma(3.0, 0, 2.0).ppf(Uv[:, 1])})
    where = {'family': fam, 'tau': tau, 'vine_type': spec['vine_type']}
    past = vines.past_table(df, rng) if spec['seed'] % 2 else None
    model, poison = vines.fit(ctx, spec['vine_type'], df, 3, 'pos', random_state=int(rng.integers(1 << 30)), past=past)
    if poison is None:
        ctx.violation('sample.fit', 'C17:fit-' + exc_mech(model), dict(exc_detail(model), **where))
        return
    where['refitted'] = past is not None
    n = spec['n_sample']
    import copulas.multivariate.vine as vine_mod
    from vmon import interpose
    with interpose.record_random(vine_mod) as log:
        ok, out = ctx.call(model.sample, n)
    if not ok:
        ctx.violation('sample.call', 'C17:sample-' + exc_mech(out), dict(exc_detail(out), **where))
        return
    good = list(out.columns) == ['a', 'b'] and len(out) == n and not out.isna().any().any()
    if not ctx.check(good, 'sample.schema', 'C17:sample-schema', lambda: dict(where, columns=list(out.columns), rows=len(out))):
        return
    e = model.trees[0].edges[0]
    _rosenblatt2(ctx, model, df, out, log, e, where)
    # the same holds for the model rebuilt from its own description (a fitted vine however it was obtained)
    from copulas.multivariate import VineCopula
    okr, rebuilt = ctx.call(lambda: VineCopula.from_dict(model.to_dict()))
    if okr:
        rebuilt.set_random_state(int(rng.integers(1 << 30)))
        with interpose.record_random(vine_mod) as log2:
            ok2, out2 = ctx.call(rebuilt.sample, 150)
        if ok2 and list(out2.columns) == ['a', 'b'] and len(out2) == 150:
            _rosenblatt2(ctx, rebuilt, df, out2, log2, rebuilt.trees[0].edges[0], dict(where, model='rebuilt from to_dict()'))
        else:
            ctx.violation('sample.call', 'C17:rebuilt-vine-sample-' + (exc_mech(out2) if not ok2 else 'schema'),
                          dict(exc_detail(out2) if not ok2 else {}, **where))
    tau_edge = float(arch.Arch(FAM[e.name.value], e.theta).tau())
    # the sampler clips conditional uniforms at 0.99 (documented in DESIGN.md section 5): allow that mass
    eps = stats.dkw_eps(n) + 0.011
    from copulas.univariate import GaussianKDE
    ctx.check(len(model.unis) == 2 and len(model.ppfs) == 2, 'sample.marginals-are-this-fit', 'C17:vine-keeps-marginals-of-an-earlier-fit',
              lambda: dict(where, unis=len(model.unis), ppfs=len(model.ppfs)))
    for j, c in enumerate(['a', 'b']):
        # "the fitted marginals" are the marginals of THIS training table: a kernel estimate fitted here to the column
        fresh = GaussianKDE()
        fresh.fit(df[c].to_numpy().copy())
        dks = stats.ks_distance(out[c].to_numpy(), fresh.cdf)
        ctx.check(dks <= eps, 'sample.marginal-dkw', 'C17:sampled-column-not-fitted-marginal',
                  lambda: dict(where, column=c, ks=dks, band=eps))
        ctx.maxstat('vine sample KS / band', dks / eps, where)
    ts = rank.tau_b(out['a'].to_numpy(), out['b'].to_numpy())
    te = stats.tau_eps(n) + 0.02
    ctx.check(abs(ts - tau_edge) <= te, 'sample.tau-band', 'C17:sample-tau-not-edge-copula-tau',
              lambda: dict(where, tau_sample=ts, tau_edge=tau_edge, band=te, edge=[e.name.name, e.theta]))
    ctx.maxstat('|tau_sample - tau_edge| / band', abs(ts - tau_edge) / te, where)
    ctx.nontriv('s2|%s|%r|%d' % (fam, tau, spec['seed']))


def _rosenblatt2(ctx, model, df, out, log, e, where):
    """RNG interposition on a two-column vine: every row is the Rosenblatt transform of the uniforms the sampler
    drew for it - the starting variable is its marginal's quantile of its own uniform w_s, the other variable the
    quantile of the pair copula's conditional inverse of its uniform given w_s (the sampler keeps that value
    inside [EPSILON, 0.99], section 5).  Marginals: kernel estimates fitted afresh here to the training columns;
    conditional inverse: the family class parameterised like the edge (C08 judges that class)."""
    from copulas.univariate import GaussianKDE
    uni_calls = [x for x in log if x['fn'] == 'uniform']
    int_calls = [x for x in log if x['fn'] == 'randint']
    n = len(out)
    if len(uni_calls) != n or len(int_calls) != n or any(np.shape(x['result']) != (2,) for x in uni_calls):
        ctx.note('vine sampler draws not in the recorded per-row form (reconstruction not judged)')
        return
    W = np.array([x['result'] for x in uni_calls], dtype=float)
    first = np.array([int(x['result']) for x in int_calls])
    marg = []
    for c in ('a', 'b'):
        k = GaussianKDE()
        k.fit(df[c].to_numpy().copy())
        marg.append(k)
    cop = _copula(e.name, e.theta)
    V = out.to_numpy(dtype=float)
    idx = np.arange(n)
    ws = W[idx, first]
    wt = W[idx, 1 - first]
    okc, tmp = ctx.call(cop.percent_point, wt, ws)
    if not okc:
        ctx.note('reference conditional inverse raised (reconstruction not judged)')
        return
    tmp = np.clip(np.asarray(tmp, dtype=float), EPS32, 0.99)
    bad = 0
    worst = 0.0
    for j in (0, 1):
        rows_s = np.flatnonzero(first == j)
        rows_t = np.flatnonzero(first != j)
        sd = float(np.std(df.iloc[:, j].to_numpy()))
        for rows, probs in ((rows_s, ws[rows_s]), (rows_t, tmp[rows_t])):
            if not len(rows):
                continue
            want = np.asarray(marg[j].percent_point(probs), dtype=float)
            err = np.abs(V[rows, j] - want) / (1e-7 * sd)
            err = np.where(np.isnan(err), np.inf, err)
            worst = max(worst, float(err.max()))
            bad += int((err > 1).sum())
    ctx.check(bad == 0, 'sample.rosenblatt', 'C17:sample-row-not-rosenblatt-transform-of-its-uniforms',
              lambda: dict(where, rows_off=bad, worst_error_in_1e_7_sd=worst))
    ctx.ok('sample.rosenblatt', n - 1)
    ctx.maxstat('vine sample reconstruction error / (1e-7 sd)', worst, where)


def _sample_schema(spec, ctx):
    rng = rng_for(spec['seed'], 'ss')
    d = spec['d']
    t = {'d': d, 'n': 80, 'pattern': str(rng.choice(['gram', 'equi', 'negative'])), 'perm': list(range(d)),
         'seed': spec['seed']}
    df = vines.make_table(t)
    df.columns = [['x', 'a', 'm', 'b', 'z'][i] for i in range(d)]
    where = {'vine_type': spec['vine_type'], 'd': d, 'truncated': spec['truncated']}
    model, poison = vines.fit(ctx, spec['vine_type'], df, spec['truncated'], 'pos', random_state=int(rng.integers(1 << 30)))
    if poison is None:
        if vines.is_refusal(model):
            return
        ctx.violation('sample.fit', 'C17:fit-' + exc_mech(model), dict(exc_detail(model), **where))
        return
    for n in (1, 4):
        ok, out = ctx.call(model.sample, n)
        if not ok:
            ctx.violation('sample.call', 'C17:sample-' + exc_mech(out), dict(exc_detail(out), **where))
            return
        good = list(out.columns) == list(df.columns) and len(out) == n and not out.isna().any().any()
        ctx.check(good, 'sample.schema', 'C17:sample-schema',
                  lambda: dict(where, columns=list(out.columns), rows=len(out), nan=int(out.isna().sum().sum())))
    ctx.nontriv('ss|%d' % spec['seed'])


def run_case(spec, ctx):
    return {'fit': _fit_case, 'sample2': _sample2, 'sample_schema': _sample_schema}[spec['mode']](spec, ctx)
