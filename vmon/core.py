"""Shared context for monitors: event recording, counters, verdicts.

A monitor module (vmon/monitors/cNN.py) exposes

    PROPERTY   = 'C07'
    RULE       = '...'            how cases are generated and what "non-trivial" means
    DECIDING   = {'probe': min_evaluations, ...}   probes that must have fired
    ASSUMPTIONS = [...]
    def cases(seed, tier) -> list[dict]      JSON-able case specs (deterministic)
    def run_case(spec, ctx) -> None          executes the real code, oracles report into ctx
    def finalize(agg, ctx) -> None           optional: population-level oracles over tallies

Everything an oracle sees is an *observed execution* of the code in /repo.
"""

import json
import math
import os
import sys
import traceback
from collections import Counter, defaultdict

import numpy as np

REPO = os.environ.get('VMON_REPO', '/repo')

EPS32 = float(np.finfo(np.float32).eps)
TOL_COPULA = EPS32
TOL_UNIV = 1e-6


def jsonable(x, depth=0):
    """Best-effort conversion of oracle details into JSON-able values."""
    if depth > 6:
        return repr(x)[:200]
    if x is None or isinstance(x, (bool, int, str)):
        return x
    if isinstance(x, float):
        if math.isnan(x) or math.isinf(x):
            return repr(x)
        return x
    if isinstance(x, (np.floating,)):
        return jsonable(float(x))
    if isinstance(x, (np.integer,)):
        return int(x)
    if isinstance(x, (np.bool_,)):
        return bool(x)
    if isinstance(x, np.ndarray):
        if x.size > 40:
            return {'shape': list(x.shape), 'head': jsonable(x.ravel()[:12].tolist(), depth + 1)}
        return jsonable(x.tolist(), depth + 1)
    if isinstance(x, dict):
        return {str(k): jsonable(v, depth + 1) for k, v in list(x.items())[:60]}
    if isinstance(x, (list, tuple, set, frozenset)):
        xs = list(x)
        out = [jsonable(v, depth + 1) for v in xs[:60]]
        if len(xs) > 60:
            out.append('...(%d more)' % (len(xs) - 60))
        return out
    return repr(x)[:300]


class Ctx:
    """Per-worker recording context."""

    def __init__(self, prop, tier, seed):
        self.prop = prop
        self.tier = tier
        self.seed = seed
        self.counters = Counter()       # probe -> number of oracle evaluations
        self.events = []                # violations and inconclusive notes (full detail)
        self.nontrivial = set()         # keys of distinct non-trivial cases
        self.stats = {}                 # name -> {'max': value, 'at': where}
        self.tallies = defaultdict(lambda: [0, 0])   # name -> [successes, trials]
        self.samples = []
        self.notes = Counter()          # free-form counters for the evidence file
        self.sets = defaultdict(set)    # name -> distinct values observed (reported as counts)
        self.spec = None                # spec of the case being executed
        self.case_index = None
        self.max_events = 400

    # -- oracle API ---------------------------------------------------------------
    def ok(self, probe, n=1):
        self.counters[probe] += int(n)

    def violation(self, probe, mech, detail=None):
        """Record an observed violation.  `mech` names the mechanism, never a value."""
        self.counters[probe] += 1
        if len(self.events) < self.max_events:
            self.events.append({
                'verdict': 'violation', 'probe': probe, 'mech': mech,
                'detail': jsonable(detail), 'case': self.case_index, 'spec': self.spec,
            })
        else:
            self.notes['violations_not_logged'] += 1

    def check(self, cond, probe, mech, detail=None):
        """Count one oracle evaluation; record a violation when `cond` is false."""
        if cond:
            self.counters[probe] += 1
            return True
        if callable(detail):
            detail = detail()
        self.violation(probe, mech, detail)
        return False

    def inconclusive(self, probe, reason, detail=None):
        self.notes['inconclusive:' + probe + ':' + reason] += 1
        if self.notes['inconclusive_logged'] < 50:
            self.notes['inconclusive_logged'] += 1
            self.events.append({
                'verdict': 'inconclusive', 'probe': probe, 'mech': reason,
                'detail': jsonable(detail), 'case': self.case_index, 'spec': self.spec,
            })

    def nontriv(self, key):
        self.nontrivial.add(str(key))

    def maxstat(self, name, value, at=None):
        try:
            value = float(value)
        except Exception:
            return
        if math.isnan(value):
            return
        cur = self.stats.get(name)
        if cur is None or value > cur['max']:
            self.stats[name] = {'max': value, 'at': jsonable(at)}

    def tally(self, name, success):
        t = self.tallies[name]
        t[1] += 1
        if success:
            t[0] += 1

    def note(self, name, n=1):
        self.notes[name] += n

    def distinct(self, name, value):
        self.sets[name].add(str(value))

    def sample(self, obj):
        if len(self.samples) < 6:
            self.samples.append(jsonable(obj))

    # -- calling the code under observation -------------------------------------
    def call(self, fn, *args, **kwargs):
        """Call real code; returns (True, result) or (False, exception)."""
        try:
            return True, fn(*args, **kwargs)
        except Exception as exc:   # noqa: BLE001 - every exception is an observation
            return False, exc

    def dump(self):
        return {
            'counters': dict(self.counters), 'events': self.events,
            'nontrivial': sorted(self.nontrivial), 'stats': self.stats,
            'tallies': {k: v for k, v in self.tallies.items()},
            'samples': self.samples, 'notes': dict(self.notes),
            'sets': {k: sorted(v) for k, v in self.sets.items()},
        }


def exc_site(exc):
    """'file.py:function' of the innermost frame inside the repository package, or None."""
    tb = exc.__traceback__
    site = None
    while tb is not None:
        fn = tb.tb_frame.f_code.co_filename
        if '/copulas/' in fn and '/vmon/' not in fn:
            site = os.path.basename(fn) + ':' + tb.tb_frame.f_code.co_name
        tb = tb.tb_next
    return site


def exc_origin(exc):
    """'subpackage/file.py:function' of the innermost repository frame (None if outside the package)."""
    tb = exc.__traceback__
    site = None
    while tb is not None:
        fn = tb.tb_frame.f_code.co_filename
        if '/copulas/' in fn and '/vmon/' not in fn:
            site = fn.split('/copulas/')[-1] + ':' + tb.tb_frame.f_code.co_name
        tb = tb.tb_next
    return site


def exc_mech(exc):
    return 'raises:%s@%s' % (type(exc).__name__, exc_site(exc))


def exc_detail(exc):
    return {'type': type(exc).__name__, 'msg': str(exc)[:300], 'site': exc_site(exc),
            'tb': traceback.format_exception(type(exc), exc, exc.__traceback__)[-6:]}


def assert_repo():
    import copulas
    path = os.path.realpath(copulas.__file__)
    if not path.startswith(os.path.realpath(REPO) + os.sep):
        sys.stderr.write('copulas imported from %s, expected under %s\n' % (path, REPO))
        raise SystemExit(3)
    return path


def rng_for(*keys):
    """Deterministic Generator from a tuple of ints/strings."""
    import zlib
    ints = []
    for k in keys:
        if isinstance(k, (int, np.integer)):
            ints.append(int(k) & 0xFFFFFFFF)
        else:
            ints.append(zlib.crc32(str(k).encode()) & 0xFFFFFFFF)
    return np.random.Generator(np.random.PCG64(np.random.SeedSequence(ints)))


def load_json(path):
    with open(path) as f:
        return json.load(f)


def all_cases(mod, seed, tier):
    """Witness cases of the open known findings of this property (pinned, seed-independent),
    followed by the generated workload."""
    path = os.path.join(os.path.dirname(os.path.dirname(os.path.abspath(__file__))), 'known_findings.json')
    wit = []
    if os.path.exists(path):
        for e in load_json(path).get('findings', []):
            if e.get('property') == mod.PROPERTY and e.get('status') == 'open' and e.get('witness'):
                ws = e['witness'] if isinstance(e['witness'], list) else [e['witness']]
                for w in ws:
                    wit.append(dict(w, witness=e['key']))
    return wit + list(mod.cases(seed, tier))
