"""Interposition on a repository module's global `np`.

Repository modules reach numpy through their module-level name `np`.  Rebinding that name
to a transparent proxy lets the harness observe (RandomRecorder) every np.random call the
module makes, or change what np.empty/np.empty_like return (EmptyPoisoner), without
editing the repository.  Everything else is delegated untouched.
"""

import contextlib

import numpy as _np

RECORDED = {'uniform', 'multivariate_normal', 'randint', 'normal', 'choice', 'random',
            'random_sample', 'rand', 'randn', 'standard_normal', 'seed', 'set_state'}


class _RandomProxy:
    def __init__(self, log):
        self._log = log

    def __getattr__(self, name):
        attr = getattr(_np.random, name)
        if name not in RECORDED or not callable(attr):
            return attr
        log = self._log

        def recorded(*args, **kwargs):
            result = attr(*args, **kwargs)
            log.append({'fn': name, 'args': args, 'kwargs': kwargs, 'result': result})
            return result
        return recorded


class _NpProxy:
    def __init__(self, overrides):
        object.__setattr__(self, '_overrides', overrides)

    def __getattr__(self, name):
        ov = object.__getattribute__(self, '_overrides')
        if name in ov:
            return ov[name]
        return getattr(_np, name)


@contextlib.contextmanager
def record_random(*modules):
    """Context manager: yields the list of np.random calls made by `modules` meanwhile."""
    log = []
    proxy = _NpProxy({'random': _RandomProxy(log)})
    saved = [(m, m.np) for m in modules]
    for m in modules:
        m.np = proxy
    try:
        yield log
    finally:
        for m, real in saved:
            m.np = real


class Poison:
    def __init__(self, value):
        self.value = value
        self.buffers = 0
        self.cells = 0

    def empty(self, shape, dtype=float, *args, **kwargs):
        a = _np.empty(shape, dtype, *args, **kwargs)
        if a.dtype.kind == 'f':
            a[...] = self.value
            self.buffers += 1
            self.cells += a.size
        return a

    def empty_like(self, proto, *args, **kwargs):
        a = _np.empty_like(proto, *args, **kwargs)
        if a.dtype.kind == 'f':
            a[...] = self.value
            self.buffers += 1
            self.cells += a.size
        return a


@contextlib.contextmanager
def poison_empty(value, *modules):
    """np.empty / np.empty_like, as seen by `modules`, return buffers filled with `value`."""
    p = Poison(value)
    proxy = _NpProxy({'empty': p.empty, 'empty_like': p.empty_like})
    saved = [(m, m.np) for m in modules]
    for m in modules:
        m.np = proxy
    try:
        yield p
    finally:
        for m, real in saved:
            m.np = real
