"""Check driver: fans a property's workload out over worker processes, aggregates what
the monitors observed, applies the known-findings file, writes the evidence file and
prints the verdict lines.

    ./check C07 [--tier quick|thorough] [--replay FILE] [--jobs N]

exit 0  held on everything observed (KNOWN-FINDING lines for recorded defects)
exit 1  at least one unlisted violation     (VIOLATION property=<id> replay=<path>)
exit 2  inconclusive (a deciding probe never fired, a watchdog fired, harness trouble)
"""

import argparse
import fnmatch
import json
import os
import subprocess
import sys
import tempfile
import time
from collections import Counter

HERE = os.path.dirname(os.path.dirname(os.path.abspath(__file__)))
EVID = os.path.join(HERE, 'evidence')
FINDINGS_FILE = os.path.join(HERE, 'known_findings.json')

WATCHDOG_S = {'quick': 1500, 'thorough': 4 * 3600}


def load_findings(prop):
    if not os.path.exists(FINDINGS_FILE):
        return []
    with open(FINDINGS_FILE) as f:
        data = json.load(f)
    return [e for e in data.get('findings', []) if e.get('property') == prop]


def _match_where(where, detail):
    """Data-driven constraints on an event's detail dict (all must hold)."""
    if not where:
        return True
    if not isinstance(detail, dict):
        return False
    for key, want in where.items():
        have = detail.get(key)
        if isinstance(want, dict) and 'contains' in want:
            if want['contains'] not in str(have):
                return False
        elif isinstance(want, dict):
            try:
                v = float(have)
            except (TypeError, ValueError):
                return False
            if 'min' in want and not v >= want['min']:
                return False
            if 'max' in want and not v <= want['max']:
                return False
        elif isinstance(want, list):
            if have not in want:
                return False
        else:
            if have != want:
                return False
    return True


def claim(event, findings):
    """Key of the open known finding whose mechanism this violation event matches."""
    for entry in findings:
        if entry.get('status') != 'open':
            continue          # a fixed entry suppresses nothing
        pats = entry.get('mech', [])
        if any(fnmatch.fnmatchcase(event.get('mech', ''), p) for p in pats):
            if _match_where(entry.get('where'), event.get('detail')):
                return entry['key']
    return None


def run_workers(prop, tier, seed, jobs, ncases):
    nshards = max(1, min(jobs, ncases))
    tmpdir = tempfile.mkdtemp(prefix='w_%s_' % prop, dir=os.path.join(EVID, 'tmp'))
    procs = []
    env = dict(os.environ)
    env['VMON_TMP'] = tmpdir
    for k in range(nshards):
        out = os.path.join(tmpdir, 'shard%d.json' % k)
        log = open(os.path.join(tmpdir, 'shard%d.log' % k), 'w')
        p = subprocess.Popen([sys.executable, '-m', 'vmon.worker', prop, tier, str(seed),
                              str(k), str(nshards), out], cwd=HERE, env=env,
                             stdout=log, stderr=subprocess.STDOUT)
        procs.append((p, out, log))
    deadline = time.time() + WATCHDOG_S[tier]
    results, problems = [], []
    for k, (p, out, log) in enumerate(procs):
        try:
            p.wait(timeout=max(1, deadline - time.time()))
        except subprocess.TimeoutExpired:
            p.kill()
            p.wait()
            problems.append('shard %d: watchdog fired' % k)
            log.close()
            continue
        log.close()
        if os.path.exists(out):
            with open(out) as f:
                results.append(json.load(f))
        else:
            with open(log.name) as f:
                tail = f.read()[-1500:]
            problems.append('shard %d: exit %s without result: %s' % (k, p.returncode, tail))
    # scratch files are removed; witnesses are copied out separately
    for name in os.listdir(tmpdir):
        try:
            os.remove(os.path.join(tmpdir, name))
        except OSError:
            pass
    try:
        os.rmdir(tmpdir)
    except OSError:
        pass
    return results, problems, nshards


def aggregate(results):
    agg = {'counters': Counter(), 'events': [], 'nontrivial': set(), 'stats': {},
           'tallies': {}, 'samples': [], 'notes': Counter(), 'sets': {}, 'cases_run': 0,
           'cases_total': 0, 'paths': set(), 'lines': {}}
    for r in results:
        agg['counters'].update(r['counters'])
        agg['events'].extend(r['events'])
        agg['nontrivial'].update(r['nontrivial'])
        for k, v in r['stats'].items():
            cur = agg['stats'].get(k)
            if cur is None or v['max'] > cur['max']:
                agg['stats'][k] = v
        for k, (s, n) in r['tallies'].items():
            t = agg['tallies'].setdefault(k, [0, 0])
            t[0] += s
            t[1] += n
        for s in r['samples']:
            if len(agg['samples']) < 8:
                agg['samples'].append(s)
        agg['notes'].update(r['notes'])
        for fn, ls in r.get('lines', {}).items():
            agg['lines'].setdefault(fn, set()).update(ls)
        for k, v in r.get('sets', {}).items():
            agg['sets'].setdefault(k, set()).update(v)
        agg['cases_run'] += r['cases_run']
        agg['cases_total'] = r['cases_total']
        agg['paths'].add(r.get('copulas_path'))
    agg['events'].sort(key=lambda e: (e.get('case') if e.get('case') is not None else -1))
    return agg


def line_report(lines, prop):
    """Per anchor file of the property: executed statement lines / statement lines of the file."""
    import ast
    anchors = []
    try:
        with open(os.path.join(HERE, 'properties.jsonl')) as f:
            for l in f:
                p = json.loads(l)
                if p['id'] == prop:
                    anchors = [a.replace('copulas/', '', 1) for a in p['anchors'].get('files', [])]
    except OSError:
        pass
    report = {}
    repo_pkg = None
    for fn in sorted(lines):
        if anchors and fn not in anchors:
            continue
        total = None
        try:
            import copulas
            repo_pkg = os.path.dirname(copulas.__file__)
            tree = ast.parse(open(os.path.join(repo_pkg, fn)).read())
            stmts = {n.lineno for n in ast.walk(tree) if isinstance(n, ast.stmt)
                     and not (isinstance(n, ast.Expr) and isinstance(getattr(n, 'value', None), ast.Constant))}
            total = len(stmts)
            hit = len(stmts & set(lines[fn]))
        except Exception:  # noqa: BLE001
            hit = len(lines[fn])
        report[fn] = {'statements_hit': hit, 'statements': total}
    missing = [a for a in anchors if a not in lines]
    if missing:
        report['anchor files never executed'] = missing
    return report


def write_replay(prop, n, event):
    d = os.path.join(EVID, 'replay', prop)
    os.makedirs(d, exist_ok=True)
    path = os.path.join(d, '%d.json' % n)
    with open(path, 'w') as f:
        json.dump({'property': prop, 'spec': event.get('spec'), 'event': event}, f, indent=1)
    return path


def clear_replays(prop):
    d = os.path.join(EVID, 'replay', prop)
    if os.path.isdir(d):
        for name in os.listdir(d):
            try:
                os.remove(os.path.join(d, name))
            except OSError:
                pass


def replay(prop, path):
    from vmon.core import Ctx, assert_repo
    from vmon.worker import load_monitor, run_cases
    import warnings
    import numpy as np
    warnings.simplefilter('ignore')
    np.seterr(all='ignore')
    assert_repo()
    with open(path) as f:
        rec = json.load(f)
    mod = load_monitor(prop)
    ctx = Ctx(prop, 'quick', 0)
    if hasattr(mod, 'setup_worker'):
        mod.setup_worker(ctx)
    run_cases(mod, [rec['spec']], ctx)
    viol = [e for e in ctx.events if e['verdict'] == 'violation']
    print(json.dumps({'evaluations': sum(ctx.counters.values()),
                      'violations': [{k: e[k] for k in ('probe', 'mech', 'detail')}
                                     for e in viol]}, indent=1))
    findings = load_findings(prop)
    unlisted = [e for e in viol if claim(e, findings) is None]
    for key in sorted({claim(e, findings) for e in viol} - {None}):
        entry = next(f for f in findings if f['key'] == key)
        print('KNOWN-FINDING: property=%s %s [%s]' % (prop, entry['what'], key))
    if unlisted:
        print('VIOLATION property=%s replay=%s' % (prop, path))
        return 1
    return 0


def main(argv=None):
    ap = argparse.ArgumentParser()
    ap.add_argument('prop')
    ap.add_argument('--tier', default=os.environ.get('VERIF_TIER') or 'quick',
                    choices=['quick', 'thorough'])
    ap.add_argument('--replay')
    ap.add_argument('--jobs', type=int, default=int(os.environ.get('VMON_JOBS', '16')))
    args = ap.parse_args(argv)
    prop = args.prop.upper()
    try:
        seed = int(os.environ.get('VERIF_SEED', '0') or 0)
    except ValueError:
        seed = 0
    if args.replay:
        return replay(prop, args.replay)

    t0 = time.time()
    from vmon.worker import load_monitor
    mod = load_monitor(prop)
    from vmon.core import all_cases
    specs = all_cases(mod, seed, args.tier)
    os.makedirs(os.path.join(EVID, 'tmp'), exist_ok=True)
    results, problems, nshards = run_workers(prop, args.tier, seed, args.jobs, len(specs))
    agg = aggregate(results)

    # population-level oracles (percentage clauses) over the tallies of all shards
    from vmon.core import Ctx
    fctx = Ctx(prop, args.tier, seed)
    if hasattr(mod, 'finalize'):
        mod.finalize(agg, fctx)
        agg['counters'].update(fctx.counters)
        agg['events'].extend(fctx.events)
        agg['notes'].update(fctx.notes)
        for k, v in fctx.stats.items():
            agg['stats'][k] = v

    findings = load_findings(prop)
    violations = [e for e in agg['events'] if e['verdict'] == 'violation']
    inconcl = [e for e in agg['events'] if e['verdict'] == 'inconclusive']
    claimed = Counter()
    unclaimed = []
    for e in violations:
        key = claim(e, findings)
        if key is None:
            unclaimed.append(e)
        else:
            claimed[key] += 1

    # deciding probes must have fired
    reasons = list(problems)
    for probe, minimum in getattr(mod, 'DECIDING', {}).items():
        if isinstance(minimum, dict):
            minimum = minimum[args.tier]
        if agg['counters'].get(probe, 0) < minimum:
            reasons.append('deciding probe %s evaluated %d < %d times'
                           % (probe, agg['counters'].get(probe, 0), minimum))
    if agg['cases_run'] < agg['cases_total'] and not problems:
        reasons.append('only %d of %d cases ran' % (agg['cases_run'], agg['cases_total']))
    if len(agg['paths']) > 1:
        reasons.append('workers imported copulas from different places: %s' % agg['paths'])

    clear_replays(prop)
    lines = []
    by_mech = {}
    for e in unclaimed:
        by_mech.setdefault((e['probe'], e['mech']), []).append(e)
    n = 0
    for (probe, mech), evs in sorted(by_mech.items(), key=lambda kv: str(kv[0])):
        n += 1
        path = write_replay(prop, n, evs[0])
        lines.append('VIOLATION property=%s replay=%s   # probe=%s mech=%s events=%d'
                     % (prop, path, probe, mech, len(evs)))
    known_lines = []
    for entry in findings:
        if entry.get('status') == 'open' and claimed.get(entry['key']):
            known_lines.append('KNOWN-FINDING: property=%s %s [%s] (observed %d times this run)'
                               % (prop, entry['what'], entry['key'], claimed[entry['key']]))

    evaluations = int(sum(agg['counters'].values()))
    samples = agg['samples'] or specs[:3]
    coverage = {
        'evaluations': evaluations,
        'distinct_nontrivial': len(agg['nontrivial']),
        'rule': getattr(mod, 'RULE', ''),
        'samples': samples,
        'cases_generated': len(specs),
        'cases_run': agg['cases_run'],
        'shards': nshards,
        'per_probe_evaluations': dict(sorted(agg['counters'].items())),
        'extreme_observations': agg['stats'],
        'tallies': {k: {'successes': v[0], 'trials': v[1]} for k, v in agg['tallies'].items()},
        'notes': dict(sorted(agg['notes'].items())),
        'distinct_observed': {k: len(v) for k, v in sorted(agg['sets'].items())},
        'known_findings_observed': dict(claimed),
        'unlisted_violation_mechanisms': sorted({e['mech'] for e in unclaimed}),
        'inconclusive_events': len(inconcl),
        'inconclusive_reasons': reasons,
        'copulas_imported_from': sorted(p for p in agg['paths'] if p),
    }
    coverage['repository_lines_executed_under_monitoring'] = line_report(agg['lines'], getattr(mod, 'PROPERTY', prop))
    verdict = 'violated' if unclaimed else ('inconclusive' if reasons else 'held')
    coverage['verdict'] = verdict
    evidence = {
        'property_id': prop, 'tier': args.tier, 'seed': seed, 'level': 'exploration',
        'coverage': coverage, 'assumptions': list(getattr(mod, 'ASSUMPTIONS', [])),
        'wall_s': round(time.time() - t0, 2), 'violations': len(unclaimed),
    }
    os.makedirs(EVID, exist_ok=True)
    tmp = os.path.join(EVID, prop + '.json.tmp')
    with open(tmp, 'w') as f:
        json.dump(evidence, f, indent=1, sort_keys=False)
    os.replace(tmp, os.path.join(EVID, prop + '.json'))

    print('%s tier=%s seed=%d cases=%d/%d shards=%d evaluations=%d distinct_nontrivial=%d wall=%.1fs'
          % (prop, args.tier, seed, agg['cases_run'], len(specs), nshards, evaluations,
             len(agg['nontrivial']), time.time() - t0))
    for k, v in sorted(agg['counters'].items()):
        print('  probe %-34s %8d evaluations' % (k, v))
    for k, v in sorted(agg['stats'].items()):
        print('  observed max %-28s %.4g  at %s' % (k, v['max'], json.dumps(v['at'])[:120]))
    for k, v in sorted(agg['tallies'].items()):
        print('  tally %-34s %d/%d' % (k, v[0], v[1]))
    for line in known_lines:
        print(line)
    if unclaimed:
        for line in lines:
            print(line)
        return 1
    if reasons:
        for r in reasons:
            print('INCONCLUSIVE property=%s reason=%s' % (prop, r))
        return 2
    print('HELD property=%s on everything observed' % prop)
    return 0


if __name__ == '__main__':
    sys.exit(main())
