"""Helpers for the Gaussian-copula monitors (C01, C02, C12, C13, C14, C15, C19, C20):
table generation from a known Gaussian copula, configuration forms, normal scores."""

import numpy as np
from scipy import stats as st
from scipy.special import ndtr, ndtri

from vmon.core import EPS32, rng_for

CORR_KINDS = ('gram', 'equi_pos', 'equi_neg', 'near_singular', 'block', 'identity')
MARG_KINDS = ('normal', 'uniform', 'beta', 'gamma', 'student_t', 'log_laplace', 'truncnorm', 'bimodal',
              'integer', 'constant')
CONFIGS = ('default', 'class', 'name', 'instance', 'dict')


def correlation(kind, d, rng):
    if kind == 'gram':
        A = rng.normal(size=(d, d + 1))
        S = A @ A.T
    elif kind == 'equi_pos':
        r = rng.uniform(0.1, 0.95)
        S = np.full((d, d), r) + (1 - r) * np.eye(d)
    elif kind == 'equi_neg':
        r = -0.95 / (d - 1)
        S = np.full((d, d), r) + (1 - r) * np.eye(d)
    elif kind == 'near_singular':
        A = rng.normal(size=(d, d))
        Q, _ = np.linalg.qr(A)
        w = np.concatenate([[1e-6], rng.uniform(0.3, 2, d - 1)])
        S = Q @ np.diag(w) @ Q.T
    elif kind == 'block':
        S = np.eye(d)
        k = max(1, d // 2)
        r = rng.uniform(0.3, 0.9)
        S[:k, :k] = np.full((k, k), r) + (1 - r) * np.eye(k)
        if d - k >= 2:
            r2 = -rng.uniform(0.2, 0.8)
            S[k:k + 2, k:k + 2] = [[1, r2], [r2, 1]]
    else:
        S = np.eye(d)
    s = np.sqrt(np.diag(S))
    S = S / s[:, None] / s[None, :]
    S = (S + S.T) / 2
    np.fill_diagonal(S, 1.0)
    return S


def marginal(kind, rng):
    """Frozen scipy distribution (or a callable ppf) for a marginal kind."""
    loc = float(rng.uniform(-20, 20))
    scale = float(10 ** rng.uniform(-1, 1.5))
    if kind == 'normal':
        return st.norm(loc, scale)
    if kind == 'uniform':
        return st.uniform(loc, scale)
    if kind == 'beta':
        return st.beta(rng.uniform(0.7, 6), rng.uniform(0.7, 6), loc, scale)
    if kind == 'gamma':
        return st.gamma(rng.uniform(0.7, 10), loc, scale)
    if kind == 'student_t':
        return st.t(rng.uniform(2.5, 20), loc, scale)
    if kind == 'log_laplace':
        return st.loglaplace(rng.uniform(1.5, 8), loc, scale)
    if kind == 'truncnorm':
        a, b = np.sort(rng.uniform(-2.5, 2.5, 2))
        if b - a < 0.8:
            a, b = a - 0.5, b + 0.5
        return st.truncnorm(a, b, loc, scale)
    if kind == 'bimodal':
        m1, m2, s1, s2 = loc - 3 * scale, loc + 4 * scale, scale, scale / 2

        class Mix:
            def ppf(self, u):
                grid = np.linspace(m1 - 8 * s1, m2 + 8 * s2, 4001)
                F = 0.5 * ndtr((grid - m1) / s1) + 0.5 * ndtr((grid - m2) / s2)
                return np.interp(u, F, grid)
        return Mix()
    if kind == 'integer':
        lam = float(rng.uniform(3, 30))
        return st.poisson(lam)
    raise ValueError(kind)


def make_table(spec):
    """(DataFrame, info) from {d, n, corr, marginals, names, seed[, extras]}."""
    import pandas as pd
    rng = rng_for(spec['seed'], 'table')
    d, n = spec['d'], spec['n']
    S = correlation(spec['corr'], d, rng)
    w, V = np.linalg.eigh(S)
    Z = rng.standard_normal((n, d)) @ (V * np.sqrt(np.clip(w, 0, None))[None, :]).T
    U = ndtr(Z)
    cols = []
    dists = []
    for i, kind in enumerate(spec['marginals']):
        if kind == 'constant':
            cols.append(np.full(n, float(rng.choice([0.0, 3.5, -2.0, 1e3]))))
            dists.append(None)
        else:
            dist = marginal(kind, rng)
            cols.append(np.asarray(dist.ppf(np.clip(U[:, i], 1e-12, 1 - 1e-12)), dtype=float))
            dists.append(dist)
    X = np.column_stack(cols)
    for ex in spec.get('extras', []):
        j = int(rng.integers(d))
        if ex == 'duplicate':
            X = np.column_stack([X, X[:, j]])
        elif ex == 'negated':
            X = np.column_stack([X, -X[:, j]])
        elif ex == 'affine':
            X = np.column_stack([X, 3.5 * X[:, j] - 2])
        elif ex == 'noisy_copy':
            X = np.column_stack([X, X[:, j] * (1 + 1e-9 * rng.standard_normal(n))])
        elif ex == 'two_valued':
            X = np.column_stack([X, (X[:, j] > np.median(X[:, j])).astype(float)])
        elif ex == 'constant':
            X = np.column_stack([X, np.full(n, 7.0)])
        elif ex == 'timestamp':
            # large magnitude, small relative spread (epoch seconds within an hour): NOT a constant column
            X = np.column_stack([X, 1.7e9 + 300.0 * Z[:, j % Z.shape[1]] + 40.0 * rng.standard_normal(n)])
        elif ex == 'int_constant':
            X = np.column_stack([X, np.zeros(n)])     # replaced by an int64 column below
        elif ex == 'tiny_values':
            X = np.column_stack([X, 2.5e-9 * (1 + 0.2 * Z[:, j % Z.shape[1]])])
        elif ex == 'sum':
            # exact multi-column collinearity without duplicated or constant columns
            i2 = int((j + 1) % d)
            X = np.column_stack([X, X[:, j] + X[:, i2]])
        elif ex == 'outlier':
            X = np.column_stack([X, X[:, j]])
            X[int(rng.integers(n)), -1] = X[:, j].mean() - 25 * (X[:, j].std() or 1.0)
        spec_kind = ex
        dists.append(None)
    k = X.shape[1]
    names_kind = spec.get('names', 'str')
    if names_kind == 'str':
        names = ['col_%d' % i for i in range(k)]
    elif names_kind == 'int':
        names = list(range(k))
    elif names_kind == 'unsorted':
        names = ['z', 'a', 'm', 'b', 'y', 'c', 'x', 'd', 'w', 'e'][:k]
    else:
        names = [('n%d' % i) if i % 2 else i for i in range(k)]
    df = pd.DataFrame(X, columns=names)
    ik = spec.get('index', 'default')
    if ik == 'shuffled':
        df.index = rng.permutation(n)
    elif ik == 'offset':
        df.index = np.arange(1000, 1000 + n)
    elif ik == 'str':
        df.index = ['r%d' % i for i in range(n)]
    elif ik == 'duplicated':
        df.index = np.arange(n) // 2
    for pos, ex in enumerate(spec.get('extras', [])):
        if ex == 'int_constant':
            # id-like integer constant, also beyond float64's exact-integer range
            val = [7, 2 ** 53 + 1, -(2 ** 60) - 1, 1234567890123456789][int(rng.integers(4))]
            df[names[d + pos]] = np.full(n, val, dtype='int64')
    for c, kind in zip(names, spec['marginals']):
        if kind == 'integer' and spec.get('int_dtype'):
            df[c] = df[c].astype('int64')
    return df, {'S': S, 'dists': dists, 'Z': Z}


def random_table_spec(rng, tier, d=None, n=None, allow_constant=True, marg_pool=None):
    d = d or int(rng.integers(2, 7))
    pool = list(marg_pool or MARG_KINDS)
    if not allow_constant and 'constant' in pool:
        pool.remove('constant')
    margs = [str(rng.choice(pool)) for _ in range(d)]
    if margs.count('constant') == d:
        margs[0] = 'normal'
    return {'d': d, 'n': n or int(rng.choice([200, 1000, 5000] if tier == 'thorough' else [200, 1000])),
            'corr': str(rng.choice(CORR_KINDS)), 'marginals': margs,
            'names': str(rng.choice(['str', 'int', 'unsorted', 'mixed'])), 'seed': int(rng.integers(1 << 31)),
            'index': str(rng.choice(['default', 'default', 'shuffled', 'offset', 'str', 'duplicated'])),
            'int_dtype': bool(rng.random() < 0.5)}


def distribution_for(config, columns, rng):
    """The `distribution` argument of GaussianMultivariate for a configuration form."""
    import copulas.univariate as cu
    fast = ['GaussianUnivariate', 'UniformUnivariate', 'BetaUnivariate', 'GammaUnivariate', 'StudentTUnivariate']
    if config == 'default':
        return None
    if config == 'kde':
        return cu.GaussianKDE
    if config == 'gaussian':
        return cu.GaussianUnivariate
    if config == 'class':
        return getattr(cu, str(rng.choice(fast)))
    if config == 'name':
        return 'copulas.univariate.' + str(rng.choice(fast))
    if config == 'instance':
        r = rng.random()
        if r < 0.3:
            return cu.GaussianKDE(bw_method=float(rng.choice([0.2, 0.5, 1.0])))
        if r < 0.5:
            return cu.TruncatedGaussian(-1e7, 1e7)          # options given positionally
        if r < 0.65:
            return cu.TruncatedGaussian()
        # families whose constructor takes (and therefore records) no options
        return getattr(cu, str(rng.choice(fast)))()
    dist = {}
    shared = getattr(cu, str(rng.choice(fast)))() if rng.random() < 0.3 else None
    for c in columns:
        r = rng.random()
        if r < 0.7:
            k = str(rng.choice(fast + ['GaussianKDE']))
            dist[c] = getattr(cu, k) if rng.random() < 0.5 else 'copulas.univariate.' + k
            if shared is not None and r < 0.45:
                dist[c] = shared                            # one prototype object named for several columns
    return dist


def build_model(config, columns, rng, random_state=None):
    from copulas.multivariate import GaussianMultivariate
    dist = distribution_for(config, columns, rng)
    kw = {} if random_state is None else {'random_state': random_state}
    return GaussianMultivariate(distribution=dist, **kw) if dist is not None else GaussianMultivariate(**kw)


def normal_scores(model, X):
    """Normal scores of the rows of a DataFrame, computed by the monitor from the public marginals."""
    out = []
    for name, u in zip(model.columns, model.univariates):
        F = np.asarray(u.cdf(X[name].to_numpy()), dtype=float)
        out.append(ndtri(np.clip(F, EPS32, 1 - EPS32)))
    return np.column_stack(out)


def pearson(Zs):
    """Two-pass Pearson correlation; all-equal columns get zero rows/columns incl. the diagonal."""
    Zs = np.asarray(Zs, dtype=float)
    d = Zs.shape[1]
    C = np.zeros((d, d))
    const = np.array([np.all(Zs[:, j] == Zs[0, j]) for j in range(d)])
    m = Zs.mean(axis=0)
    D = Zs - m[None, :]
    ss = np.sqrt(np.sum(D * D, axis=0))
    for i in range(d):
        for j in range(d):
            if const[i] or const[j] or ss[i] == 0 or ss[j] == 0:
                continue
            C[i, j] = np.sum(D[:, i] * D[:, j]) / (ss[i] * ss[j])
    return C, const


def give_past(model, df, rng):
    """Give a GaussianMultivariate instance a past: fit it on a table with the same columns but another
    dependence structure and scale, and USE it (density, CDF, sampling, conditional sampling), so that
    anything cached lazily is filled before the fit that is going to be judged."""
    import pandas as pd
    other = pd.DataFrame({c: rng.permutation(df[c].to_numpy()) * float(rng.choice([1.0, 3.0])) for c in df.columns},
                         columns=df.columns)
    try:
        np.random.seed(int(rng.integers(1 << 30)))
        model.fit(other)
        q = other.iloc[:3]
        model.probability_density(q)
        model.cumulative_distribution(q.iloc[:1])
        model.sample(3)
        cols = list(df.columns)
        for k in range(1, len(cols)):
            model.sample(2, conditions={c: float(other[c].iloc[0]) for c in cols[:k]})
            model.sample(2, conditions={c: float(other[c].iloc[0]) for c in cols[-k:]})
    except Exception:  # noqa: BLE001 - the past is only a diversity factor
        pass
    return model


def prototype_options_kept(model):
    """(ok, detail): when the configured distribution is an instance prototype, every fitted marginal of
    that class carries the prototype's constructor options."""
    proto = model.distribution
    if isinstance(proto, (str, type, dict)) or proto is None:
        return True, None
    attrs = {'GaussianKDE': ('bw_method', '_fit_sample_size'), 'TruncatedGaussian': ('min', 'max')}.get(type(proto).__name__, ())
    for u in model.univariates:
        if type(u) is not type(proto):
            continue            # Gaussian fallback after a refused fit
        for a in attrs:
            if getattr(u, a, '<missing>') != getattr(proto, a, '<missing>'):
                return False, {'attribute': a, 'prototype': repr(getattr(proto, a, None)), 'fitted': repr(getattr(u, a, None))}
        if u is proto:
            return False, {'attribute': 'identity', 'note': 'the prototype itself was fitted'}
    return True, None
