"""Behaviour fingerprints of fitted models and NaN-aware deep equality (C14, C19)."""

import enum

import numpy as np


def deep_equal(a, b, path=''):
    """(True, '') or (False, path of the first difference).  NaN == NaN, sets compared as sets,
    numpy scalars/arrays compared by value (bit-for-bit for floats, except NaN)."""
    if isinstance(a, enum.Enum) or isinstance(b, enum.Enum):
        return (a == b, path) if a != b else (True, '')
    if isinstance(a, dict) and isinstance(b, dict):
        if set(map(repr, a.keys())) != set(map(repr, b.keys())):
            return False, path + '/<keys>'
        bk = {repr(k): k for k in b}
        for k in a:
            ok, p = deep_equal(a[k], b[bk[repr(k)]], path + '/' + str(k))
            if not ok:
                return False, p
        return True, ''
    if isinstance(a, (set, frozenset)) and isinstance(b, (set, frozenset, list, tuple)):
        return (set(a) == set(b), path) if set(a) != set(b) else (True, '')
    if isinstance(b, (set, frozenset)) and isinstance(a, (list, tuple)):
        return (set(a) == set(b), path) if set(a) != set(b) else (True, '')
    if isinstance(a, (list, tuple)) and isinstance(b, (list, tuple)):
        if len(a) != len(b):
            return False, path + '/<len %d != %d>' % (len(a), len(b))
        if len(a) > 50 and all(isinstance(x, (int, float)) for x in a) and all(isinstance(x, (int, float)) for x in b):
            ok = np.array_equal(np.asarray(a, dtype=float), np.asarray(b, dtype=float), equal_nan=True)
            return (ok, path) if not ok else (True, '')
        for i, (x, y) in enumerate(zip(a, b)):
            ok, p = deep_equal(x, y, path + '/%d' % i)
            if not ok:
                return False, p
        return True, ''
    if isinstance(a, np.ndarray) or isinstance(b, np.ndarray):
        try:
            a_, b_ = np.asarray(a), np.asarray(b)
            if a_.shape != b_.shape:
                return False, path + '/<shape>'
            if a_.dtype.kind in 'fc' or b_.dtype.kind in 'fc':
                ok = np.array_equal(a_.astype(float), b_.astype(float), equal_nan=True)
            else:
                ok = np.array_equal(a_, b_)
            return (ok, path) if not ok else (True, '')
        except Exception:  # noqa: BLE001
            return False, path
    if hasattr(a, 'to_numpy') and hasattr(b, 'to_numpy'):
        ok = list(getattr(a, 'index', [])) == list(getattr(b, 'index', []))
        if hasattr(a, 'columns') and hasattr(b, 'columns'):
            ok = ok and list(a.columns) == list(b.columns)
        return deep_equal(a.to_numpy(), b.to_numpy(), path) if ok else (False, path + '/<labels>')
    if isinstance(a, (float, np.floating)) or isinstance(b, (float, np.floating)):
        try:
            fa, fb = float(a), float(b)
        except (TypeError, ValueError):
            return False, path
        if (np.isnan(fa) and np.isnan(fb)) or fa == fb:
            return True, ''
        return False, path
    if isinstance(a, (int, np.integer)) and isinstance(b, (int, np.integer)) and not isinstance(a, bool):
        return (int(a) == int(b), path) if int(a) != int(b) else (True, '')
    try:
        same = a == b
        if isinstance(same, (bool, np.bool_)):
            return (bool(same), path) if not same else (True, '')
    except Exception:  # noqa: BLE001
        pass
    return (repr(a) == repr(b), path) if repr(a) != repr(b) else (True, '')


def _safe(fn, *a, **k):
    try:
        return fn(*a, **k)
    except Exception as exc:  # noqa: BLE001 - the exception type is part of the behaviour
        return 'raises:' + type(exc).__name__


def univariate(model, data, seed=11, with_samples=True):
    lo, hi = float(np.min(data)), float(np.max(data))
    span = (hi - lo) or 1.0
    x = np.concatenate([np.quantile(data, [0, 0.1, 0.5, 0.9, 1]), [lo - span, hi + span, lo - 50 * span]])
    q = np.array([0.0, 1e-6, 0.01, 0.25, 0.5, 0.75, 0.99, 1 - 1e-6, 1.0])
    fp = {'pdf': _safe(model.probability_density, x), 'cdf': _safe(model.cumulative_distribution, x),
          'ppf': _safe(model.percent_point, q), 'logpdf': _safe(model.log_probability_density, x)}
    if with_samples:
        _safe(model.set_random_state, seed)
        fp['samples'] = [_safe(model.sample, 5) for _ in range(3)]
    return fp


def bivariate(model, seed=11):
    g = np.array([1e-4, 0.05, 0.3, 0.5, 0.8, 0.99, 1 - 1e-4])
    U, V = np.meshgrid(g, g)
    X = np.column_stack([U.ravel(), V.ravel()])
    fp = {'pdf': _safe(model.probability_density, X), 'cdf': _safe(model.cumulative_distribution, X),
          'h': _safe(model.partial_derivative, X), 'ppf': _safe(model.percent_point, X[:, 0], X[:, 1])}
    _safe(model.set_random_state, seed)
    fp['samples'] = [_safe(model.sample, 4) for _ in range(3)]
    return fp


def gaussian_mv(model, df, seed=11, cdf_rows=3):
    Q = df.iloc[:6]
    fp = {'pdf': _safe(model.probability_density, Q), 'logpdf': _safe(model.log_probability_density, Q)}
    # scipy's MVN CDF is a randomised integrator (not reproducible run to run): compared with a tolerance
    fp['cdf_noisy'] = _safe(model.cumulative_distribution, Q.iloc[:cdf_rows])
    _safe(model.set_random_state, seed)
    fp['samples'] = [_safe(model.sample, 4) for _ in range(3)]
    cols = list(df.columns)
    if len(cols) > 1:
        fp['conditional'] = _safe(model.sample, 3, conditions={cols[-1]: float(df[cols[-1]].iloc[0])})
    return fp


def vine(model, u, seed=11, rows=2):
    fp = {'likelihood': [_safe(model.get_likelihood, ui) for ui in u]}
    _safe(model.set_random_state, seed)
    fp['samples'] = [_safe(model.sample, rows) for _ in range(2)]
    return fp
